package c09

import (
	"bytes"
	"encoding/hex"
	"encoding/json"
	"fmt"
	"math/big"
	"sort"
	"strings"

	"gitlab.com/aquachain/aquachain/aquadb"
	"gitlab.com/aquachain/aquachain/common"
	"gitlab.com/aquachain/aquachain/core/state"
	"gitlab.com/aquachain/aquachain/core/types"
	"verifharness/ev"
)

// Keys of the recorded findings (known_findings/C09.json).
const (
	keyDirtyRevert = "dirty-revert-deletes-preexisting-empty"
	keyTouchRevert = "touch-revert-disarms-dirty-tracking"
	keyAfterCommit = "write-after-commit-lost"
)

// ---------- the case format (also the JSON replay / corpus format) ----------

type Op struct {
	K string `json:"k"`
	A int    `json:"a,omitempty"` // address index
	S int    `json:"s,omitempty"` // slot index
	V string `json:"v,omitempty"` // hex: amount / storage word / code / log data / preimage
	N uint64 `json:"n,omitempty"` // nonce / refund / index of the live snapshot to revert to (0 = oldest)
	T int    `json:"t,omitempty"` // log: transaction index (selects the tx hash); number of topics = T%5
	F bool   `json:"f,omitempty"` // commit: deleteEmpty of the next epoch; copy: continue on the copy
	M int    `json:"m,omitempty"` // commit: 0 same object, 1 Reset(root), 2 New(root, same db), 3 New(root, fresh db over the disk); copy: 0 Copy, 1 ManageState
	// reopen: N = index (mod count) into the list of roots committed so far in
	// this case (0 = the pre-state), M: 0 check only, 1 check and continue on the
	// reopened older state (F = deleteEmpty of its epoch), 2 check and also Reset a
	// scratch StateDB to it
}

type PreAcct struct {
	A     int            `json:"a"`
	Nonce uint64         `json:"nonce,omitempty"`
	Bal   string         `json:"bal,omitempty"`
	Code  string         `json:"code,omitempty"`
	Store map[int]string `json:"store,omitempty"`
}

type Case struct {
	// Sparse: compare the getters only after reverts, finalisations, copies and
	// explicit "observe" operations instead of after every operation (reading
	// warms the implementation's caches, which can hide a stale-cache defect).
	Sparse  bool      `json:"sparse,omitempty"`
	Addrs   []string  `json:"addrs"`
	Pre     []PreAcct `json:"pre"`
	FreshDB bool      `json:"freshdb,omitempty"` // open the pre-state through a new database over the flushed disk
	Flag    bool      `json:"flag"`              // deleteEmpty of the first epoch
	Ops     []Op      `json:"ops"`
}

var slotPool = []Word{
	{},
	{31: 1},
	{0xff, 0xff, 0xff, 0xff, 0xff, 0xff, 0xff, 0xff, 0xff, 0xff, 0xff, 0xff, 0xff, 0xff, 0xff, 0xff, 0xff, 0xff, 0xff, 0xff, 0xff, 0xff, 0xff, 0xff, 0xff, 0xff, 0xff, 0xff, 0xff, 0xff, 0xff, 0xff},
	{0: 0xc0, 1: 0x9, 15: 0x77, 31: 0x80},
}

var addrPool = []string{
	"0000000000000000000000000000000000000003", // RIPEMD-160 precompile
	"0000000000000000000000000000000000000000",
	"0000000000000000000000000000000000000001",
	"ffffffffffffffffffffffffffffffffffffffff",
	"095e7baea6a6c7c4c2dfeb977efac326af552d87",
	"a94f5374fce5edbc8e2a8697c15331677e6ebf0b",
	"1000000000000000000000000000000000000000",
	"00000000000000000000000000000000000000aa",
	"c0ffee254729296a45a3885639ac7e10f9d54979",
	"8888f1f195afa192cfee860698584c030f4c9db1",
}

var thashPool = []common.Hash{{1}, {2, 2}, {3, 3, 3}}
var bhash = common.Hash{0xbb}

func hexBytes(s string) []byte {
	b, err := hex.DecodeString(s)
	if err != nil {
		panic("bad hex in case: " + s)
	}
	return b
}

func hexBig(s string) *big.Int {
	if s == "" {
		return new(big.Int)
	}
	v, ok := new(big.Int).SetString(s, 16)
	if !ok {
		panic("bad hex number in case: " + s)
	}
	return v
}

func hexWord(s string) Word {
	var w Word
	b := hexBytes(s)
	if len(b) > 32 {
		b = b[len(b)-32:]
	}
	copy(w[32-len(b):], b)
	return w
}

// ---------- failure plumbing ----------

type failer interface {
	Fatalf(format string, args ...interface{})
}

// catchFail turns the first failure into a returned error (used by witnesses
// and by the replay runners).
type catchFail struct{ msg string }
type failSentinel struct{}

func (c *catchFail) Fatalf(format string, args ...interface{}) {
	c.msg = fmt.Sprintf(format, args...)
	panic(failSentinel{})
}

func runCaught(fn func(f failer)) (msg string) {
	c := &catchFail{}
	defer func() {
		if r := recover(); r != nil {
			if _, ok := r.(failSentinel); ok {
				msg = c.msg
				return
			}
			panic(r)
		}
	}()
	fn(c)
	return ""
}

// ---------- the world: implementation + model + shadow, driven in lock step ----------

type frozenPair struct {
	s    *state.StateDB
	m    *Model
	flag bool
	what string
}

// committedRoot is one root a Commit returned in this case, with the model
// content of that commit and the state.Database it was committed through.
type committedRoot struct {
	root    common.Hash
	m       *Model // finalised content of that commit, no logs; never modified
	db      state.Database
	onDisk  bool // TrieDB().Commit(root) was called: a fresh database over the disk can open it
	sdb     *state.StateDB
	trieGen int
	// what happened on the committing StateDB (same account trie) afterwards
	foldsAfter    int  // finalisations that folded pending writes into its account trie
	movedOn       bool // ... and left that trie with a content different from this commit's
	commitsAfter  int  // further Commits of that trie
	dbCommitsSeen int  // Commits through db (by any StateDB) after this one
	opsAfter      int
}

type snapInfo struct {
	kinds            map[string]bool
	suicideRecreated bool
	afterFinalise    bool
	ripemdTouch      bool
	muts             int
}

type world struct {
	f      failer
	name   string
	cs     *Case
	addrs  []Addr
	disk   aquadb.Database
	db     state.Database
	s      *state.StateDB
	m      *Model
	sh     *Shadow
	ids    []int
	sinfo  []snapInfo
	flag   bool
	frozen []frozenPair
	trace  []Op

	// every root committed in this case (the pre-state first); trieGen changes
	// whenever w.s starts working on another account trie object
	history []*committedRoot
	trieGen int

	preimagesLossy bool // the case continued on a Copy (SecureTrie.Copy drops unflushed preimages)

	noExclude bool // witnesses: run the known shapes instead of stepping around them

	// bookkeeping for labels
	everExisted   map[Addr]bool
	recreated     map[Addr]bool
	finalisations int
	mutsSinceFin  int
	labels        map[string]bool
	nontrivial    bool
	excluded      int
	finishing     bool
}

func (w *world) label(l string) { w.labels[l] = true }

// mid prefixes labels of operations that happen inside the generated sequence
// (finish() always ends a case with a root check and a commit).
func (w *world) mid() string {
	if w.finishing {
		return ""
	}
	return "mid:"
}

func (w *world) known(key string) bool { return !w.noExclude && ev.Known(key) }

func (w *world) fail(format string, args ...interface{}) {
	c := *w.cs
	c.Ops = w.trace
	js, _ := json.Marshal(c)
	if !w.noExclude { // a witness of a listed finding is expected to fail: no case file
		ev.SaveCase(w.name, c)
	}
	w.f.Fatalf("%s\ncase: %s", fmt.Sprintf(format, args...), js)
}

func newShadow() *Shadow {
	sh := NewShadow()
	sh.fixUndoDirty = !ev.Known(keyDirtyRevert)
	sh.fixUndoTouch = !ev.Known(keyTouchRevert)
	sh.fixCommit = !ev.Known(keyAfterCommit)
	return sh
}

// newWorld builds the committed pre-state with the real StateDB and the model
// side by side and opens the state the case runs on.
func newWorld(f failer, name string, cs *Case) *world {
	w := &world{f: f, name: name, cs: cs, flag: cs.Flag, labels: map[string]bool{},
		everExisted: map[Addr]bool{}, recreated: map[Addr]bool{}}
	for _, a := range cs.Addrs {
		var ad Addr
		copy(ad[:], hexBytes(a))
		w.addrs = append(w.addrs, ad)
	}
	w.disk = aquadb.NewMemDatabase()
	w.db = state.NewDatabase(w.disk)
	s, err := state.New(common.Hash{}, w.db)
	if err != nil {
		w.fail("state.New(empty): %v", err)
	}
	w.m = NewModel()
	for _, p := range cs.Pre {
		if p.A < 0 || p.A >= len(w.addrs) {
			continue
		}
		a := w.addrs[p.A]
		ca := common.Address(a)
		// the way Genesis.ToBlock builds an allocation
		bal := hexBig(p.Bal)
		s.AddBalance(ca, bal)
		w.m.AddBalance(a, bal)
		if p.Code != "" {
			s.SetCode(ca, hexBytes(p.Code))
			w.m.SetCode(a, hexBytes(p.Code))
		}
		if p.Nonce != 0 {
			s.SetNonce(ca, p.Nonce)
			w.m.SetNonce(a, p.Nonce)
		}
		keys := make([]int, 0, len(p.Store))
		for k := range p.Store {
			keys = append(keys, k)
		}
		sort.Ints(keys)
		for _, k := range keys {
			if k < 0 || k >= len(slotPool) {
				continue
			}
			s.SetState(ca, common.Hash(slotPool[k]), common.Hash(hexWord(p.Store[k])))
			w.m.SetState(a, slotPool[k], hexWord(p.Store[k]))
		}
		w.everExisted[a] = true
	}
	root, err := s.Commit(false)
	if err != nil {
		w.fail("pre-state Commit: %v", err)
	}
	w.m.Finalise(false)
	if want := w.m.Root(); !bytes.Equal(root[:], want) {
		w.fail("pre-state root %x differs from the specification's root %x for the content", root, want)
	}
	pre := &committedRoot{root: root, m: w.m.Clone(), db: w.db, sdb: s, trieGen: -1}
	pre.m.Logs = nil
	w.history = append(w.history, pre)
	if cs.FreshDB {
		if err := w.db.TrieDB().Commit(root, false); err != nil {
			w.fail("TrieDB.Commit: %v", err)
		}
		pre.onDisk = true
		w.db = state.NewDatabase(w.disk)
	}
	w.s, err = state.New(root, w.db)
	if err != nil {
		w.fail("state.New(pre-state root): %v", err)
	}
	w.sh = newShadow()
	w.compare(w.s, w.m, "pre-state")
	return w
}

func (w *world) addr(i int) (Addr, bool) {
	if i < 0 || i >= len(w.addrs) {
		return Addr{}, false
	}
	return w.addrs[i], true
}

// compare checks every getter for every address x slot, the refund counter and
// the log list of s against m.
func (w *world) compare(s *state.StateDB, m *Model, where string) {
	for i, a := range w.addrs {
		ca := common.Address(a)
		ac := m.Accts[a]
		exists := ac != nil
		if got := s.Exist(ca); got != exists {
			w.fail("%s: Exist(addr %d) = %v, model %v", where, i, got, exists)
		}
		empty := !exists || ac.Empty()
		if got := s.Empty(ca); got != empty {
			w.fail("%s: Empty(addr %d) = %v, model %v", where, i, got, empty)
		}
		bal, nonce, code, suicided := new(big.Int), uint64(0), []byte(nil), false
		codeHash := make([]byte, 32)
		if exists {
			bal, nonce, code, suicided = ac.Bal, ac.Nonce, ac.Code, ac.Suicided
			codeHash = CodeHash(ac.Code)
		}
		if got := s.GetBalance(ca); got.Cmp(bal) != 0 {
			w.fail("%s: GetBalance(addr %d) = %v, model %v", where, i, got, bal)
		}
		if got := s.GetNonce(ca); got != nonce {
			w.fail("%s: GetNonce(addr %d) = %d, model %d", where, i, got, nonce)
		}
		if got := s.GetCode(ca); !bytes.Equal(got, code) {
			w.fail("%s: GetCode(addr %d) = %x, model %x", where, i, got, code)
		}
		if got := s.GetCodeSize(ca); got != len(code) {
			w.fail("%s: GetCodeSize(addr %d) = %d, model %d", where, i, got, len(code))
		}
		if got := s.GetCodeHash(ca); !bytes.Equal(got[:], codeHash) {
			w.fail("%s: GetCodeHash(addr %d) = %x, model %x", where, i, got, codeHash)
		}
		if got := s.HasSuicided(ca); got != suicided {
			w.fail("%s: HasSuicided(addr %d) = %v, model %v", where, i, got, suicided)
		}
		for j, k := range slotPool {
			var want Word
			if exists {
				want = ac.Store[k]
			}
			if got := s.GetState(ca, common.Hash(k)); Word(got) != want {
				w.fail("%s: GetState(addr %d, slot %d) = %x, model %x", where, i, j, got, want)
			}
		}
	}
	if got := s.GetRefund(); got != m.Refund {
		w.fail("%s: GetRefund() = %d, model %d", where, got, m.Refund)
	}
	w.compareLogs(s, m, where)
}

func sameLog(g *types.Log, l Log) bool {
	if Addr(g.Address) != l.Addr || !bytes.Equal(g.Data, l.Data) || Word(g.TxHash) != l.TxHash || Word(g.BlockHash) != l.BlockHash ||
		g.TxIndex != l.TxIndex || g.Index != l.Index || len(g.Topics) != len(l.Topics) {
		return false
	}
	for i := range g.Topics {
		if Word(g.Topics[i]) != l.Topics[i] {
			return false
		}
	}
	return true
}

func (w *world) compareLogs(s *state.StateDB, m *Model, where string) {
	all := s.Logs()
	if len(all) != len(m.Logs) {
		w.fail("%s: Logs() has %d entries, model %d", where, len(all), len(m.Logs))
	}
	sort.SliceStable(all, func(i, j int) bool { return all[i].Index < all[j].Index })
	for i, g := range all {
		if !sameLog(g, m.Logs[i]) {
			w.fail("%s: Logs()[%d] = %+v, model %+v", where, i, *g, m.Logs[i])
		}
	}
	for _, th := range thashPool {
		got := s.GetLogs(th)
		var want []Log
		for _, l := range m.Logs {
			if l.TxHash == Word(th) {
				want = append(want, l)
			}
		}
		if len(got) != len(want) {
			w.fail("%s: GetLogs(%x..) has %d entries, model %d", where, th[:2], len(got), len(want))
		}
		for i := range got {
			if !sameLog(got[i], want[i]) {
				w.fail("%s: GetLogs(%x..)[%d] differs from the model", where, th[:2], i)
			}
		}
	}
}

// compareDump checks RawDump of s (a state opened at a committed root)
// against the finalised model content: same root, same set of accounts, same
// fields. RawDump names accounts and slots through the secure trie's preimage
// index, which is an auxiliary table outside the statement; a SecureTrie.Copy
// drops the preimages not yet flushed, so once a case has continued on a Copy
// an entry may legitimately appear under the empty name: such entries are
// counted, not judged (the root already commits to their content).
func (w *world) compareDump(s *state.StateDB, m *Model, where string) {
	d := s.RawDump()
	if want := hex.EncodeToString(m.Root()); d.Root != want {
		w.fail("%s: dump root %s, specification root %s", where, d.Root, want)
	}
	_, unnamed := d.Accounts[""]
	if unnamed && !w.preimagesLossy {
		w.fail("%s: dump lists an account without address preimage", where)
	}
	if len(d.Accounts) != len(m.Accts) && !unnamed {
		w.fail("%s: dump has %d accounts, model %d", where, len(d.Accounts), len(m.Accts))
	}
	for name := range d.Accounts {
		var a Addr
		b, err := hex.DecodeString(name)
		if name == "" {
			continue
		}
		if err != nil || len(b) != 20 {
			w.fail("%s: dump lists account %q", where, name)
		}
		copy(a[:], b)
		if m.Accts[a] == nil {
			w.fail("%s: dump lists account %s, which the model does not have", where, name)
		}
	}
	for a, ac := range m.Accts {
		da, ok := d.Accounts[hex.EncodeToString(a[:])]
		if !ok {
			if unnamed {
				w.label("dump-preimage-missing")
				continue
			}
			w.fail("%s: account %x missing from the dump", where, a)
		}
		if da.Balance != ac.Bal.String() || da.Nonce != ac.Nonce || da.Code != hex.EncodeToString(ac.Code) ||
			da.CodeHash != hex.EncodeToString(CodeHash(ac.Code)) || da.Root != hex.EncodeToString(StorageRoot(ac.Store)) {
			w.fail("%s: dump of account %x = %+v differs from the model (nonce %d balance %v code %x)", where, a, da, ac.Nonce, ac.Bal, ac.Code)
		}
		_, unnamedSlot := da.Storage[""]
		if unnamedSlot && !w.preimagesLossy {
			w.fail("%s: dump of account %x lists a slot without preimage", where, a)
		}
		if len(da.Storage) != len(ac.Store) && !unnamedSlot {
			w.fail("%s: dump of account %x has %d storage entries, model %d", where, a, len(da.Storage), len(ac.Store))
		}
		for k, v := range ac.Store {
			want := hex.EncodeToString(rlpWord(v))
			got, ok := da.Storage[hex.EncodeToString(k[:])]
			if !ok && unnamedSlot {
				w.label("dump-preimage-missing")
				continue
			}
			if got != want {
				w.fail("%s: dump of account %x slot %x = %s, model %s", where, a, k, got, want)
			}
		}
	}
}

func rlpWord(v Word) []byte {
	b := trimZeros(v[:])
	if len(b) == 1 && b[0] < 0x80 {
		return b
	}
	return append([]byte{0x80 + byte(len(b))}, b...)
}

// noteMut records a state-changing operation for the label bookkeeping.
func (w *world) noteMut(kind string, a Addr, suicideOfRecreated, ripemdTouch bool) {
	w.mutsSinceFin++
	for i := range w.sinfo {
		w.sinfo[i].kinds[kind] = true
		w.sinfo[i].muts++
		if suicideOfRecreated {
			w.sinfo[i].suicideRecreated = true
		}
		if ripemdTouch {
			w.sinfo[i].ripemdTouch = true
		}
	}
}

// lost reports whether a state-changing call on a would fall into finding 3's
// shape: its live object was written before a Commit on this same StateDB.
func (w *world) lost(a Addr) bool {
	if !w.known(keyAfterCommit) {
		return false
	}
	if w.sh.IsLost(a) {
		return true
	}
	return (w.sh.fixUndoDirty || w.sh.fixUndoTouch) && w.sh.stale[a] && !w.sh.dirty[a]
}

func (w *world) exclude(key string) {
	ev.Excluded(key)
	w.excluded++
	w.label("excluded:" + key)
}

// target prepares a state-changing call on address a: kind "touch", "mutate" or
// "reset" for an existing account. It returns false when the call must be
// stepped around (finding 3).
func (w *world) target(a Addr, kind string) bool {
	if !w.m.Exists(a) {
		if w.everExisted[a] {
			w.recreated[a] = true
		}
		w.everExisted[a] = true
		w.sh.Create(a)
		if kind == "mutate" {
			w.sh.Mutate(a)
		}
		return true
	}
	switch kind {
	case "reset":
		// On the unrepaired tree CreateAccount over such an object works (the
		// new object is armed); only when findings 1/2 are repaired and 3 is
		// not does the stale per-object state matter for it too.
		if (w.sh.fixUndoDirty || w.sh.fixUndoTouch) && w.lost(a) {
			w.exclude(keyAfterCommit)
			return false
		}
		w.recreated[a] = true
		w.sh.Reset(a)
	case "touch":
		if w.lost(a) {
			w.exclude(keyAfterCommit)
			return false
		}
		w.sh.Touch(a)
	case "mutate":
		if w.lost(a) {
			w.exclude(keyAfterCommit)
			return false
		}
		w.sh.Mutate(a)
	}
	return true
}

// exec applies one operation to implementation and model and compares them.
// It returns false if the operation is not applicable in the current state or
// was stepped around as a known shape (nothing was executed then).
func (w *world) exec(o Op) bool {
	if !w.apply(o) {
		return false
	}
	w.trace = append(w.trace, o)
	for _, e := range w.history {
		e.opsAfter++
	}
	if !w.cs.Sparse || o.K == "revert" || o.K == "observe" || o.K == "finalise" || o.K == "root" {
		w.compare(w.s, w.m, fmt.Sprintf("after op %d (%s)", len(w.trace)-1, o.K))
	}
	return true
}

func (w *world) apply(o Op) bool {
	a, okA := w.addr(o.A)
	ca := common.Address(a)
	switch o.K {
	case "addBalance", "touch":
		if !okA {
			return false
		}
		v := hexBig(o.V)
		if o.K == "touch" {
			v = new(big.Int)
		}
		ac := w.m.Accts[a]
		switch {
		case ac == nil:
			w.target(a, "create")
			if v.Sign() == 0 {
				w.sh.Touch(a)
			} else {
				w.sh.Mutate(a)
			}
		case v.Sign() == 0 && !ac.Empty():
			// no effect, no journal entry
		case v.Sign() == 0:
			if !w.target(a, "touch") {
				return false
			}
		default:
			if !w.target(a, "mutate") {
				return false
			}
		}
		ripTouch := ac != nil && v.Sign() == 0 && ac.Empty() && a == Ripemd
		w.s.AddBalance(ca, v)
		w.m.AddBalance(a, v)
		if ac == nil || v.Sign() != 0 || ac.Empty() {
			kind := "balance"
			if v.Sign() == 0 {
				kind = "touch"
			}
			w.noteMut(kind, a, false, ripTouch)
		}
	case "subBalance":
		if !okA {
			return false
		}
		v := hexBig(o.V)
		ac := w.m.Accts[a]
		if ac == nil && v.Sign() != 0 || ac != nil && ac.Bal.Cmp(v) < 0 {
			return false // callers check CanTransfer first
		}
		switch {
		case ac == nil:
			w.target(a, "create")
		case v.Sign() == 0:
		default:
			if !w.target(a, "mutate") {
				return false
			}
		}
		w.s.SubBalance(ca, v)
		w.m.SubBalance(a, v)
		if ac == nil || v.Sign() != 0 {
			w.noteMut("balance", a, false, false)
		}
	case "setBalance":
		if !okA || !w.target(a, "mutate") {
			return false
		}
		w.s.SetBalance(ca, hexBig(o.V))
		w.m.SetBalance(a, hexBig(o.V))
		w.noteMut("balance", a, false, false)
	case "setNonce":
		if !okA || !w.target(a, "mutate") {
			return false
		}
		w.s.SetNonce(ca, o.N)
		w.m.SetNonce(a, o.N)
		w.noteMut("nonce", a, false, false)
	case "setCode":
		if !okA || !w.target(a, "mutate") {
			return false
		}
		w.s.SetCode(ca, hexBytes(o.V))
		w.m.SetCode(a, hexBytes(o.V))
		w.noteMut("code", a, false, false)
	case "setState":
		if !okA || o.S < 0 || o.S >= len(slotPool) {
			return false
		}
		if !w.target(a, "mutate") {
			return false
		}
		v := hexWord(o.V)
		if ac := w.m.Accts[a]; v == (Word{}) && ac != nil && ac.Store[slotPool[o.S]] != (Word{}) {
			w.label("storage-slot-cleared")
		}
		w.s.SetState(ca, common.Hash(slotPool[o.S]), common.Hash(v))
		w.m.SetState(a, slotPool[o.S], v)
		w.noteMut("storage", a, false, false)
	case "suicide":
		if !okA {
			return false
		}
		exists := w.m.Exists(a)
		if exists && !w.target(a, "mutate") {
			return false
		}
		got := w.s.Suicide(ca)
		want := w.m.Suicide(a)
		if got != want {
			w.fail("Suicide(addr %d) returned %v, model %v", o.A, got, want)
		}
		if exists {
			w.noteMut("suicide", a, w.recreated[a], false)
			w.label("suicide")
		}
	case "create":
		if !okA {
			return false
		}
		if ac := w.m.Accts[a]; ac != nil {
			if len(ac.Store) > 0 {
				w.label("recreate-over-storage")
			}
			if ac.Suicided {
				w.label("recreate-after-suicide-same-tx")
			}
		}
		if !w.target(a, "reset") {
			return false
		}
		w.s.CreateAccount(ca)
		w.m.CreateAccount(a)
		w.noteMut("create", a, false, false)
	case "log":
		if !okA {
			return false
		}
		ti := o.T
		if ti < 0 {
			ti = -ti
		}
		th := thashPool[ti%len(thashPool)]
		w.s.Prepare(th, bhash, ti)
		l := Log{Addr: a, Data: hexBytes(o.V), TxHash: Word(th), BlockHash: Word(bhash), TxIndex: uint(ti)}
		tl := &types.Log{Address: ca, Data: hexBytes(o.V)}
		for i := 0; i < ti%5; i++ {
			tp := Word{0: byte(i + 1), 31: byte(ti)}
			l.Topics = append(l.Topics, tp)
			tl.Topics = append(tl.Topics, common.Hash(tp))
		}
		w.sh.Other()
		w.s.AddLog(tl)
		w.m.AddLog(l)
		w.noteMut("log", a, false, false)
	case "refund":
		w.sh.Other()
		w.s.AddRefund(o.N)
		w.m.AddRefund(o.N)
		w.noteMut("refund", Addr{}, false, false)
	case "preimage":
		// journaled but outside the statement: interleaves journal entries only
		b := hexBytes(o.V)
		w.sh.Other()
		w.s.AddPreimage(common.BytesToHash(CodeHash(b)), b)
	case "snapshot":
		id := w.s.Snapshot()
		w.m.Snapshot()
		w.sh.Snapshot(id)
		w.ids = append(w.ids, id)
		w.sinfo = append(w.sinfo, snapInfo{kinds: map[string]bool{}, afterFinalise: w.finalisations > 0})
		if len(w.ids) >= 3 {
			w.label("depth>=3")
		}
	case "revert":
		n := len(w.ids)
		if n == 0 {
			return false
		}
		i := int(o.N % uint64(n))
		if !w.revertAllowed(i) {
			return false
		}
		info := w.sinfo[i]
		if n >= 3 {
			w.label("nested>=3")
		}
		if i < n-1 {
			w.label("revert-to-outer-snapshot")
		}
		kinds := 0
		for k := range info.kinds {
			if k != "log" && k != "refund" {
				kinds++
			}
		}
		if kinds >= 2 {
			w.nontrivial = true
			w.label("revert-across>=2-kinds")
		}
		if info.kinds["log"] {
			w.label("revert-across-log")
		}
		if info.kinds["refund"] {
			w.label("revert-across-refund")
		}
		if info.kinds["create"] {
			w.label("revert-across-recreate")
		}
		if info.suicideRecreated {
			w.label("revert-across-suicide-of-recreated")
		}
		if info.afterFinalise && info.muts > 0 {
			w.label("revert-after-finalise")
		}
		if info.ripemdTouch {
			w.label("ripemd-touch-reverted")
		}
		w.s.RevertToSnapshot(w.ids[i])
		w.m.RevertIdx(i)
		w.sh.RevertIdx(i)
		w.ids = w.ids[:i]
		w.sinfo = w.sinfo[:i]
	case "finalise":
		w.s.Finalise(w.flag)
		w.finaliseModel(w.m, w.flag)
		w.noteFold(false)
		w.afterFinalise()
	case "root":
		got := w.s.IntermediateRoot(w.flag)
		w.finaliseModel(w.m, w.flag)
		if want := w.m.Root(); !bytes.Equal(got[:], want) {
			w.fail("IntermediateRoot(%v) = %x, specification root of the content %x", w.flag, got, want)
		}
		w.noteFold(false)
		w.afterFinalise()
		w.label(w.mid() + "root-checked")
	case "observe":
	case "reopen":
		return w.reopen(o)
	case "commit":
		return w.commit(o)
	case "copy":
		return w.copy(o)
	default:
		return false
	}
	return true
}

func (w *world) finaliseModel(m *Model, flag bool) {
	if flag {
		for _, ac := range m.Accts {
			if !ac.Suicided && ac.Empty() && !ac.Touched {
				w.label("untouched-empty-survives-deleteEmpty")
			}
		}
	}
	rs, re := m.Finalise(flag)
	if rs > 0 {
		w.label("suicided-removed")
	}
	if re > 0 {
		w.label("touched-empty-removed")
	}
}

func (w *world) afterFinalise() {
	w.sh.Finalise()
	w.ids, w.sinfo = nil, nil
	w.finalisations++
	w.mutsSinceFin = 0
	w.checkFrozen("at finalisation")
}

// revertAllowed recognises findings 1 and 2 before the revert is executed.
func (w *world) revertAllowed(i int) bool {
	k1, k2 := w.known(keyDirtyRevert), w.known(keyTouchRevert)
	if !k1 && !k2 {
		return true
	}
	sim := w.sh.clone()
	before := sim.Lost()
	sim.RevertIdx(i)
	if k2 {
		for a := range sim.Lost() {
			if !before[a] {
				w.exclude(keyTouchRevert)
				return false
			}
		}
	}
	if k1 && w.flag {
		after := w.m.Peek(i)
		for a, ac := range after.Accts {
			if !sim.Dirty(a) || ac.Suicided || !ac.Empty() || ac.Touched {
				continue
			}
			if a == Ripemd && w.m.RipemdSticky(ac.Gen) {
				continue // the RIPEMD exception keeps it touched
			}
			w.exclude(keyDirtyRevert)
			return false
		}
	}
	return true
}

func (w *world) commit(o Op) bool {
	root, err := w.s.Commit(w.flag)
	if err != nil {
		w.fail("Commit(%v): %v", w.flag, err)
	}
	w.finaliseModel(w.m, w.flag)
	if want := w.m.Root(); !bytes.Equal(root[:], want) {
		w.fail("Commit(%v) = %x, specification root of the content %x", w.flag, root, want)
	}
	w.sh.Commit()
	w.noteFold(true)
	w.ids, w.sinfo = nil, nil
	w.finalisations++
	w.mutsSinceFin = 0

	// reopen legs: a state opened at the committed root reads back identically
	clean := w.m.Clone()
	clean.Logs = nil
	entry := &committedRoot{root: root, m: clean.Clone(), db: w.db, sdb: w.s, trieGen: w.trieGen}
	w.history = append(w.history, entry)
	re, err := state.New(root, w.db)
	if err != nil {
		w.fail("state.New(committed root, same db): %v", err)
	}
	w.compare(re, clean, "reopened on the same database")
	w.compareDump(re, clean, "reopened on the same database")
	w.label(w.mid() + "commit+reopen")
	var fresh *state.StateDB
	var freshDB state.Database
	if o.M >= 2 {
		if err := w.db.TrieDB().Commit(root, false); err != nil {
			w.fail("TrieDB.Commit: %v", err)
		}
		entry.onDisk = true
		freshDB = state.NewDatabase(w.disk)
		fresh, err = state.New(root, freshDB)
		if err != nil {
			w.fail("state.New(committed root, fresh database over the disk): %v", err)
		}
		w.compare(fresh, clean, "reopened from disk")
		w.compareDump(fresh, clean, "reopened from disk")
		w.label(w.mid() + "commit+reopen-from-disk")
	}
	switch o.M {
	case 0:
		w.label("continue-on-committed-statedb")
		// logs stay; the dirty set is gone
	case 1:
		if err := w.s.Reset(root); err != nil {
			w.fail("Reset: %v", err)
		}
		w.m, w.sh = clean, newShadow()
		w.trieGen++
		w.label("continue-after-reset")
	case 2:
		w.s, w.m, w.sh = re, clean, newShadow()
		w.trieGen++
	default:
		w.s, w.db, w.m, w.sh = fresh, freshDB, clean, newShadow()
		w.trieGen++
	}
	w.flag = o.F
	w.checkFrozen("at commit")
	return true
}

func (w *world) copy(o Op) bool {
	if len(w.frozen) >= 3 {
		return false
	}
	var c *state.StateDB
	what := "Copy"
	if o.M == 1 {
		c = state.ManageState(w.s).StateDB
		what = "ManageState"
	} else {
		c = w.s.Copy()
	}
	mc := w.m.Clone()
	w.compare(c, mc, what)
	w.label("copy")
	if w.mutsSinceFin > 0 {
		w.label("copy-after-dirty-writes")
	}
	if w.finalisations > 0 {
		w.label("copy-after-finalise")
	}
	if o.F {
		// continue on the copy; the original must stay as it is
		w.frozen = append(w.frozen, frozenPair{w.s, w.m.Clone(), w.flag, "original after " + what})
		w.s, w.m, w.sh = c, mc, w.sh.CopyOf()
		w.ids, w.sinfo = nil, nil
		w.trieGen++
		w.preimagesLossy = true
		w.label("continue-on-copy")
	} else {
		w.frozen = append(w.frozen, frozenPair{c, mc, w.flag, what})
	}
	return true
}

// noteFold is called after a Finalise/IntermediateRoot/Commit of the live
// StateDB has been mirrored in the model: it records, for the roots this same
// StateDB (same account trie object) committed earlier, that its trie has been
// written to again - bookkeeping for the labels of the reopen legs only.
func (w *world) noteFold(isCommit bool) {
	for _, e := range w.history {
		if isCommit && e.db == w.db {
			e.dbCommitsSeen++
		}
		if e.sdb != w.s || e.trieGen != w.trieGen {
			continue
		}
		if w.mutsSinceFin > 0 {
			e.foldsAfter++
		}
		if !SameContent(&e.m.content, &w.m.content) {
			e.movedOn = true
		}
		if isCommit {
			e.commitsAfter++
		}
	}
}

// reopenCheck opens a root committed earlier in this case through the
// state.Database it was committed through (and, if it was flushed, through a
// new database over the disk) and requires the content of THAT commit: every
// getter, the dump and the root - whatever the committing StateDB, its copies
// and the database's cache of recent tries have been used for since.
func (w *world) reopenCheck(e *committedRoot, idx int, when string) *state.StateDB {
	where := fmt.Sprintf("root of commit #%d reopened %s on its database", idx, when)
	re, err := state.New(e.root, e.db)
	if err != nil {
		w.fail("%s: state.New(%x): %v", where, e.root, err)
	}
	w.compare(re, e.m, where)
	w.compareDump(re, e.m, where)
	if got := re.IntermediateRoot(false); got != e.root {
		w.fail("%s: IntermediateRoot of the untouched reopened state = %x, committed root %x", where, got, e.root)
	}
	if e.onDisk {
		where = fmt.Sprintf("root of commit #%d reopened %s from disk", idx, when)
		fr, err := state.New(e.root, state.NewDatabase(w.disk))
		if err != nil {
			w.fail("%s: state.New(%x): %v", where, e.root, err)
		}
		w.compare(fr, e.m, where)
		w.compareDump(fr, e.m, where)
		if e.opsAfter > 0 {
			w.label("reopen:older-root-from-disk")
		}
	}
	if e.opsAfter > 0 {
		w.label(w.mid() + "reopen:older-root")
	}
	if e.foldsAfter > 0 && e.movedOn {
		// the class: the committing StateDB kept writing into the very trie
		// object it had committed (and handed to the database's cache)
		w.label("reopen:after-continued-use")
		w.label(w.mid() + "reopen:after-continued-use")
		if e.commitsAfter > 0 {
			w.label("reopen:after-continued-use+recommit")
		}
	}
	if e.dbCommitsSeen > 0 {
		w.label("reopen:not-the-latest-commit")
	}
	if e.dbCommitsSeen >= 12 {
		w.label("reopen:beyond-past-trie-cache")
	}
	return re
}

// reopen: the operation "open an older committed root" (N selects it). M=1
// continues the case on the reopened state (the way a reorg builds on an older
// block's state); M=2 additionally brings a scratch StateDB to it with Reset.
func (w *world) reopen(o Op) bool {
	n := len(w.history)
	if n == 0 {
		return false
	}
	idx := int(o.N % uint64(n))
	e := w.history[idx]
	re := w.reopenCheck(e, idx, fmt.Sprintf("after op %d", len(w.trace)-1))
	switch o.M {
	case 1:
		// the live state (pending writes, logs; its snapshots are not used again)
		// is set aside: it must not move while the other state, opened on the
		// same database, is written to and committed
		if len(w.frozen) < 3 {
			w.frozen = append(w.frozen, frozenPair{w.s, w.m.Clone(), w.flag, "live state set aside at reopen"})
			w.label("reopen:live-state-set-aside")
		}
		w.s, w.db, w.m, w.sh = re, e.db, e.m.Clone(), newShadow()
		w.ids, w.sinfo = nil, nil
		w.mutsSinceFin = 0
		w.trieGen++
		w.flag = o.F
		w.label("reopen:continue-on-older-root")
	case 2:
		sc, err := state.New(common.Hash{}, e.db)
		if err == nil {
			// dirty the scratch state first so that Reset has something to drop
			sc.SetNonce(common.Address(w.addrs[0]), 77)
			sc.AddRefund(5)
			sc.IntermediateRoot(false)
			sc.SetState(common.Address(w.addrs[0]), common.Hash(slotPool[1]), common.Hash{31: 9})
			err = sc.Reset(e.root)
		}
		if err != nil {
			w.fail("scratch state Reset to the root of commit #%d: %v", idx, err)
		}
		w.compare(sc, e.m, fmt.Sprintf("scratch state Reset to the root of commit #%d", idx))
		w.label("reopen:reset-to-older-root")
	}
	w.checkFrozen("at reopen")
	return true
}

// checkFrozen: states set aside by Copy must not move when the other side is
// written to.
func (w *world) checkFrozen(when string) {
	for _, fp := range w.frozen {
		w.compare(fp.s, fp.m, fp.what+" "+when)
	}
}

// finish ends the case: final root and commit of the live state, and the root
// of every state set aside.
func (w *world) finish() {
	w.finishing = true
	w.checkFrozen("at the end")
	if !w.exec(Op{K: "root"}) || !w.exec(Op{K: "commit", M: 3, F: w.flag}) {
		w.fail("harness error: final root/commit not executed")
	}
	// every root committed during the case still reads back as it was committed
	for i, e := range w.history {
		w.reopenCheck(e, i, "at the end")
	}
	for _, fp := range w.frozen {
		got := fp.s.IntermediateRoot(fp.flag)
		fp.m.Finalise(fp.flag)
		if want := fp.m.Root(); !bytes.Equal(got[:], want) {
			w.fail("%s: IntermediateRoot(%v) = %x, specification root of its content %x", fp.what, fp.flag, got, want)
		}
		w.compare(fp.s, fp.m, fp.what+" after its own finalisation")
	}
}

func (w *world) labelList() []string {
	out := make([]string, 0, len(w.labels))
	for l := range w.labels {
		out = append(out, l)
	}
	sort.Strings(out)
	return out
}

func (w *world) canon() []byte {
	c := *w.cs
	c.Ops = w.trace
	b, _ := json.Marshal(c)
	return b
}

func (w *world) summary() map[string]interface{} {
	var ks []string
	for _, o := range w.trace {
		s := o.K
		if o.K != "snapshot" && o.K != "finalise" && o.K != "root" && o.K != "refund" && o.K != "preimage" && o.K != "commit" && o.K != "copy" && o.K != "revert" {
			s += fmt.Sprintf("(%d)", o.A)
		} else if o.K == "revert" {
			s += fmt.Sprintf("(#%d)", o.N)
		}
		ks = append(ks, s)
	}
	return map[string]interface{}{"addrs": w.cs.Addrs, "pre": w.cs.Pre, "deleteEmpty": w.cs.Flag, "ops": strings.Join(ks, " "), "labels": w.labelList()}
}
