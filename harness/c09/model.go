// Package c09 checks property C09: state snapshots revert exactly and the
// state root commits to content only.
//
// model.go is the reference model. It is written from the protocol rules
// (accounts as plain records, EIP-161 touch/clear, self-destruct at end of
// transaction, Yellow-Paper world-state trie) and imports nothing from
// /repo/core/state or /repo/trie.
package c09

import (
	"bytes"
	"math/big"
	"sort"

	"verifharness/ref/refmpt"
	"verifharness/ref/refrlp"
)

type Addr [20]byte
type Word [32]byte

// Ripemd is precompile 0x03: the protocol's one exception to "a reverted
// touch is undone" (the mainnet out-of-gas incident), kept by all clients.
var Ripemd = Addr{19: 3}

type Acct struct {
	Nonce    uint64
	Bal      *big.Int
	Code     []byte
	Store    map[Word]Word // non-zero slots only
	Suicided bool
	// Touched: target of a state-changing operation in a scope of the current
	// transaction that has not been reverted (EIP-161).
	Touched bool
	// TouchOp: a zero-value transfer touched this (empty) account.
	TouchOp bool
	// Gen distinguishes successive incarnations at one address.
	Gen int
}

func (a *Acct) Empty() bool { return a.Nonce == 0 && a.Bal.Sign() == 0 && len(a.Code) == 0 }

func (a *Acct) clone() *Acct {
	c := *a
	c.Bal = new(big.Int).Set(a.Bal)
	c.Code = append([]byte(nil), a.Code...)
	c.Store = make(map[Word]Word, len(a.Store))
	for k, v := range a.Store {
		c.Store[k] = v
	}
	return &c
}

type Log struct {
	Addr      Addr
	Topics    []Word
	Data      []byte
	TxHash    Word
	BlockHash Word
	TxIndex   uint
	Index     uint
}

type content struct {
	Accts  map[Addr]*Acct
	Refund uint64
	Logs   []Log
}

func (c *content) clone() *content {
	n := &content{Accts: make(map[Addr]*Acct, len(c.Accts)), Refund: c.Refund}
	for a, ac := range c.Accts {
		n.Accts[a] = ac.clone()
	}
	n.Logs = append([]Log(nil), c.Logs...)
	return n
}

type frame struct {
	id int
	c  *content
}

// Model is the whole observable state plus the stack of live snapshots.
type Model struct {
	content
	stack   []frame
	nextID  int
	nextGen int
	// incarnations of the account at 0x03 that received a zero-value touch in
	// the current transaction (not undone by reverts: the RIPEMD exception)
	ripemdTouched map[int]bool
}

func NewModel() *Model {
	return &Model{content: content{Accts: map[Addr]*Acct{}}}
}

// Clone copies the content; snapshots do not carry over (as for StateDB.Copy).
func (m *Model) Clone() *Model {
	n := &Model{content: *m.content.clone(), nextGen: m.nextGen}
	for g := range m.ripemdTouched {
		n.noteRipemdTouch(g)
	}
	return n
}

func (m *Model) noteRipemdTouch(gen int) {
	if m.ripemdTouched == nil {
		m.ripemdTouched = map[int]bool{}
	}
	m.ripemdTouched[gen] = true
}

// RipemdSticky reports whether the incarnation gen of 0x03 keeps its touch
// across any revert in this transaction.
func (m *Model) RipemdSticky(gen int) bool { return m.ripemdTouched[gen] }

func (m *Model) fresh() *Acct {
	m.nextGen++
	return &Acct{Bal: new(big.Int), Store: map[Word]Word{}, Touched: true, Gen: m.nextGen}
}

func (m *Model) getOrNew(a Addr) *Acct {
	ac := m.Accts[a]
	if ac == nil {
		ac = m.fresh()
		m.Accts[a] = ac
	}
	return ac
}

func (m *Model) Exists(a Addr) bool { return m.Accts[a] != nil }

func (m *Model) AddBalance(a Addr, v *big.Int) {
	ac := m.getOrNew(a)
	if v.Sign() == 0 {
		// zero-value transfer: touches an empty account, nothing else
		if ac.Empty() {
			ac.Touched = true
			ac.TouchOp = true
			if a == Ripemd {
				m.noteRipemdTouch(ac.Gen)
			}
		}
		return
	}
	ac.Bal = new(big.Int).Add(ac.Bal, v)
	ac.Touched = true
}

func (m *Model) SubBalance(a Addr, v *big.Int) {
	ac := m.getOrNew(a)
	if v.Sign() == 0 {
		return
	}
	ac.Bal = new(big.Int).Sub(ac.Bal, v)
	ac.Touched = true
}

func (m *Model) SetBalance(a Addr, v *big.Int) {
	ac := m.getOrNew(a)
	ac.Bal = new(big.Int).Set(v)
	ac.Touched = true
}

func (m *Model) SetNonce(a Addr, n uint64) {
	ac := m.getOrNew(a)
	ac.Nonce = n
	ac.Touched = true
}

func (m *Model) SetCode(a Addr, code []byte) {
	ac := m.getOrNew(a)
	ac.Code = append([]byte(nil), code...)
	ac.Touched = true
}

func (m *Model) SetState(a Addr, k, v Word) {
	ac := m.getOrNew(a)
	if v == (Word{}) {
		delete(ac.Store, k)
	} else {
		ac.Store[k] = v
	}
	ac.Touched = true
}

// Suicide marks an existing account self-destructed and zeroes its balance.
func (m *Model) Suicide(a Addr) bool {
	ac := m.Accts[a]
	if ac == nil {
		return false
	}
	ac.Suicided = true
	ac.Bal = new(big.Int)
	ac.Touched = true
	return true
}

// CreateAccount installs a fresh account; an existing balance carries over.
func (m *Model) CreateAccount(a Addr) {
	prev := m.Accts[a]
	n := m.fresh()
	if prev != nil {
		n.Bal = new(big.Int).Set(prev.Bal)
	}
	m.Accts[a] = n
}

func (m *Model) AddRefund(n uint64) { m.Refund += n }

func (m *Model) AddLog(l Log) {
	l.Index = uint(len(m.Logs))
	m.Logs = append(m.Logs, l)
}

func (m *Model) Snapshot() int {
	id := m.nextID
	m.nextID++
	m.stack = append(m.stack, frame{id, m.content.clone()})
	return id
}

func (m *Model) Depth() int { return len(m.stack) }

// Peek returns the content a revert to the i-th live snapshot would restore.
func (m *Model) Peek(i int) *content { return m.stack[i].c }

func (m *Model) SnapID(i int) int { return m.stack[i].id }

// RevertIdx reverts to the i-th live snapshot (0 = oldest).
func (m *Model) RevertIdx(i int) {
	m.content = *m.stack[i].c
	m.stack = m.stack[:i]
	// RIPEMD exception: a zero-value touch of the account at 0x03 survives
	// the revert (if the incarnation that was touched is the one restored).
	if r := m.Accts[Ripemd]; r != nil && m.ripemdTouched[r.Gen] {
		r.Touched, r.TouchOp = true, true
	}
}

// Finalise ends the transaction: self-destructed accounts vanish; with
// deleteEmpty (EIP-158/161) so do accounts that are empty and were touched in
// a scope that survived. Snapshots, refund and touch marks end here.
func (m *Model) Finalise(deleteEmpty bool) (removedSuicided, removedEmpty int) {
	for a, ac := range m.Accts {
		switch {
		case ac.Suicided:
			delete(m.Accts, a)
			removedSuicided++
		case deleteEmpty && ac.Touched && ac.Empty():
			delete(m.Accts, a)
			removedEmpty++
		default:
			ac.Touched, ac.TouchOp = false, false
		}
	}
	m.stack = nil
	m.Refund = 0
	m.ripemdTouched = nil
	return
}

func trimZeros(b []byte) []byte {
	for len(b) > 0 && b[0] == 0 {
		b = b[1:]
	}
	return b
}

// StorageRoot is the root of {keccak(slot) -> rlp(value without leading zeros)}.
func StorageRoot(st map[Word]Word) []byte {
	m := make(map[string][]byte, len(st))
	for k, v := range st {
		if v == (Word{}) {
			continue
		}
		m[string(refmpt.Keccak(k[:]))] = refrlp.Encode(refrlp.B(trimZeros(v[:])))
	}
	return refmpt.Root(m)
}

func CodeHash(code []byte) []byte { return refmpt.Keccak(code) }

// AccountRLP is rlp([nonce, balance, storageRoot, codeHash]).
func AccountRLP(ac *Acct) []byte {
	return refrlp.Encode(refrlp.L(refrlp.U(ac.Nonce), refrlp.Big(ac.Bal), refrlp.B(StorageRoot(ac.Store)), refrlp.B(CodeHash(ac.Code))))
}

// Root is the world-state root the specification defines for the content:
// {keccak(address) -> AccountRLP}. It must be called on finalised content.
func (c *content) Root() []byte {
	m := make(map[string][]byte, len(c.Accts))
	for a, ac := range c.Accts {
		m[string(refmpt.Keccak(a[:]))] = AccountRLP(ac)
	}
	return refmpt.Root(m)
}

// SortedAddrs lists the existing accounts in address order.
func (c *content) SortedAddrs() []Addr {
	out := make([]Addr, 0, len(c.Accts))
	for a := range c.Accts {
		out = append(out, a)
	}
	sort.Slice(out, func(i, j int) bool { return bytes.Compare(out[i][:], out[j][:]) < 0 })
	return out
}

// SameContent compares the consensus-relevant content of two finalised models.
func SameContent(x, y *content) bool {
	if len(x.Accts) != len(y.Accts) {
		return false
	}
	for a, p := range x.Accts {
		q := y.Accts[a]
		if q == nil || p.Nonce != q.Nonce || p.Bal.Cmp(q.Bal) != 0 || !bytes.Equal(p.Code, q.Code) || len(p.Store) != len(q.Store) {
			return false
		}
		for k, v := range p.Store {
			if q.Store[k] != v {
				return false
			}
		}
	}
	return true
}
