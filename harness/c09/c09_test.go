// C09 - State snapshots revert exactly; the state root commits to content only.
//
// Oracle: Model (model.go), a plain-map reference of the account state with a
// stack of deep copies for snapshots, the specification's end-of-transaction
// rules, and the Yellow-Paper root computed by ref/refmpt over ref/refrlp
// account encodings. The real core/state.StateDB is driven in lock step.
package c09

import (
	"bytes"
	"encoding/json"
	"flag"
	"os"
	"sort"
	"strconv"
	"strings"
	"testing"

	"gitlab.com/aquachain/aquachain/common/log"
	"pgregory.net/rapid"
	"verifharness/ev"
)

func TestMain(m *testing.M) {
	log.Root().SetHandler(log.DiscardHandler())
	ev.MustHit("nested>=3", "revert-to-outer-snapshot", "revert-across>=2-kinds", "revert-across-suicide-of-recreated",
		"revert-after-finalise", "revert-across-log", "revert-across-refund", "revert-across-recreate",
		"mid:commit+reopen", "mid:commit+reopen-from-disk", "mid:root-checked", "continue-after-reset", "continue-on-committed-statedb",
		"reopen:older-root", "mid:reopen:older-root", "reopen:after-continued-use", "mid:reopen:after-continued-use", "reopen:after-continued-use+recommit",
		"reopen:not-the-latest-commit", "reopen:older-root-from-disk", "reopen:continue-on-older-root", "reopen:live-state-set-aside", "reopen:reset-to-older-root",
		"copy-after-dirty-writes", "continue-on-copy", "copy-after-finalise",
		"touched-empty-removed", "untouched-empty-survives-deleteEmpty", "suicided-removed", "ripemd-touch-reverted",
		"recreate-over-storage", "storage-slot-cleared",
		"metamorphic:detour-pair", "metamorphic:direct-pair", "witness-run", "corpus")
	ev.Main(m, ev.Config{
		Property: "C09",
		Level:    "exploration",
		Rule: "a case = a committed pre-state over 2-6 addresses drawn from a fixed pool (absent / existing-empty / funded / nonce-only / contract with storage / empty with storage; 0x03 included in half the cases) " +
			"plus a rapid state-machine run (geometric length, mean 40 quick / 100 thorough) of create, add/sub/set balance, zero-value touch, set nonce, set code, set/clear storage over 4 slots, self-destruct, log, refund, preimage, " +
			"snapshot, revert to any live snapshot, Finalise, IntermediateRoot, Commit (then continue on the same object / Reset / reopen on the same database / reopen from disk), Copy or ManageState (continue on either side) " +
			"and reopen of ANY root committed earlier in the case, the pre-state included (check only / continue the case on that older state while the abandoned live state is set aside and must not move / Reset a dirtied scratch StateDB to it); " +
			"after every operation every getter is compared with the model for all addresses x slots, every IntermediateRoot/Commit root with refmpt over the model content, every reopened state getter by getter and by RawDump; " +
			"every committed root is kept with the model content of its commit and the state.Database it was committed through, and is reopened through that same database (and, once flushed, through a new database over the disk) " +
			"at drawn points of the sequence and, all of them, at the end of the case - i.e. after the committing StateDB, its copies and the database's cache of recent tries have been used further (more writes, Finalise/IntermediateRoot/Commit again, commits of forks): " +
			"getters, dump and IntermediateRoot of the reopened state must be those of that commit (label reopen:after-continued-use = the committing StateDB had since folded different content into the same account trie object); " +
			"TestHistoryIndependence runs pairs of different histories with equal model content (inserted reverted detours; direct construction in shuffled order) and requires equal roots. " +
			"non-trivial = the case contains a revert that crosses >= 2 state changes of different kinds; distinct by hash of (pre-state, executed operation list)",
		Assumptions: []string{
			"refmpt/refrlp (harness/ref) are correct implementations of the Yellow-Paper trie root and RLP (unit-tested against published vectors)",
			"EIP-161 'touched' is taken to mean: target of any state-changing StateDB call (AddBalance(0) on an empty account = the zero-value transfer) in a scope of the current transaction that is not reverted; the RIPEMD (0x03) exception is modelled as the protocol defines it",
			"deleteEmptyObjects is constant between two Commits of one StateDB (every caller derives it from the block number: state_processor.go, consensus.go, blockchain.go, chain_makers.go); it is drawn anew per epoch",
			"SubBalance is only called with amount <= balance (callers check CanTransfer); balances stay below 2^136",
			"snapshots are used only until the next Finalise/IntermediateRoot/Commit (the journal is cleared there by design); Copy does not carry snapshots over",
		"a root counts as committed once StateDB.Commit returned it; nothing in a case calls trie.Database.Dereference (the node's pruning of old roots is a deliberate act of core/blockchain.go and outside this property), so every committed root must stay readable through the database it was committed through; through a new database over the disk only roots flushed with TrieDB().Commit are opened",
			"StateDB.Error() is not judged (GetCodeSize on a code-less account memoises a benign lookup error by design of this version)",
		},
	})
}

// ---------- generators ----------

var (
	amounts = []string{"1", "2", "ff", "100", "ffffffffffffffff", "10000000000000000", "80000000000000000000000000000000"}
	words   = []string{"", "", "01", "7f", "80", "ff", "0100", "ffffffffffffffffffffffffffffffffffffffffffffffffffffffffffffffff",
		"0100000000000000000000000000000000000000000000000000000000000000", "00000000000000000000000000000000000000000000000000000000008000"}
	codes  = []string{"", "00", "6000", "600160005500", "60606040526000357c0100000000000000000000000000000000000000000000000000000000900463ffffffff16"}
	nonces = []uint64{0, 1, 2, 127, 128, 1<<64 - 1}
	datas  = []string{"", "00", "deadbeef", "000000000000000000000000000000000000000000000000000000000000002a"}
)

const ripemdHex = "0000000000000000000000000000000000000003"

func drawCase(t *rapid.T) *Case {
	n := rapid.IntRange(2, 6).Draw(t, "naddrs")
	perm := rapid.Permutation(addrPool).Draw(t, "addrs")
	addrs := append([]string{}, perm[:n]...)
	if rapid.Bool().Draw(t, "withRipemd") {
		has := false
		for _, a := range addrs {
			has = has || a == ripemdHex
		}
		if !has {
			addrs[0] = ripemdHex
		}
	}
	cs := &Case{Addrs: addrs, Flag: rapid.Bool().Draw(t, "deleteEmpty"), FreshDB: rapid.Bool().Draw(t, "freshdb"),
		Sparse: rapid.IntRange(0, 2).Draw(t, "sparse") > 0}
	for i := range addrs {
		kind := rapid.SampledFrom([]string{"absent", "absent", "empty", "empty", "empty", "funded", "nonce", "contract", "empty+storage", "funded+storage"}).Draw(t, "prekind")
		p := PreAcct{A: i}
		st := func() {
			p.Store = map[int]string{}
			for j, k := 0, rapid.IntRange(1, 3).Draw(t, "nslots"); j < k; j++ {
				w := rapid.SampledFrom(words[2:]).Draw(t, "preword")
				p.Store[rapid.IntRange(0, len(slotPool)-1).Draw(t, "preslot")] = w
			}
		}
		switch kind {
		case "absent":
			continue
		case "empty":
		case "funded":
			p.Bal = rapid.SampledFrom(amounts).Draw(t, "prebal")
		case "nonce":
			p.Nonce = rapid.SampledFrom(nonces[1:]).Draw(t, "prenonce")
		case "contract":
			p.Code = rapid.SampledFrom(codes[1:]).Draw(t, "precode")
			p.Nonce = 1
			st()
		case "empty+storage":
			st()
		case "funded+storage":
			p.Bal = rapid.SampledFrom(amounts).Draw(t, "prebal")
			st()
		}
		cs.Pre = append(cs.Pre, p)
	}
	return cs
}

// actor draws one operation of a given kind for the current state of w and
// executes it.
type actor struct{ w *world }

var mutKinds = []string{"addBalance", "subBalance", "setBalance", "setNonce", "setCode", "setState", "clearState", "suicide", "create", "touch", "log", "refund", "preimage"}

// pre: can the action run in the current state (decided before anything is drawn)?
func (a actor) pre(kind string) bool {
	switch kind {
	case "revert":
		return len(a.w.ids) > 0
	case "snapshot":
		return len(a.w.ids) < 8
	case "copy":
		return len(a.w.frozen) < 3
	}
	return true
}

func (a actor) do(t *rapid.T, kind string) bool {
	w := a.w
	ai := func() int { return rapid.IntRange(0, len(w.addrs)-1).Draw(t, "addr") }
	switch kind {
	case "addBalance":
		return w.exec(Op{K: kind, A: ai(), V: rapid.SampledFrom(amounts).Draw(t, "amount")})
	case "touch":
		return w.exec(Op{K: kind, A: ai()})
	case "subBalance":
		i := ai()
		opts := []string{"0"}
		if ac := w.m.Accts[w.addrs[i]]; ac != nil && ac.Bal.Sign() > 0 {
			opts = append(opts, ac.Bal.Text(16), ac.Bal.Text(16), "1")
		}
		return w.exec(Op{K: kind, A: i, V: rapid.SampledFrom(opts).Draw(t, "amount")})
	case "setBalance":
		return w.exec(Op{K: kind, A: ai(), V: rapid.SampledFrom(append([]string{"0", "0"}, amounts...)).Draw(t, "amount")})
	case "setNonce":
		return w.exec(Op{K: kind, A: ai(), N: rapid.SampledFrom(nonces).Draw(t, "nonce")})
	case "setCode":
		return w.exec(Op{K: kind, A: ai(), V: rapid.SampledFrom(codes).Draw(t, "code")})
	case "setState":
		return w.exec(Op{K: kind, A: ai(), S: rapid.IntRange(0, len(slotPool)-1).Draw(t, "slot"), V: rapid.SampledFrom(words).Draw(t, "word")})
	case "clearState":
		// clear a slot that holds something, if there is one
		var cand [][2]int
		for i, ad := range w.addrs {
			if ac := w.m.Accts[ad]; ac != nil {
				for j, k := range slotPool {
					if ac.Store[k] != (Word{}) {
						cand = append(cand, [2]int{i, j})
					}
				}
			}
		}
		if len(cand) == 0 {
			return w.exec(Op{K: "setState", A: ai(), S: rapid.IntRange(0, len(slotPool)-1).Draw(t, "slot"), V: ""})
		}
		c := rapid.SampledFrom(cand).Draw(t, "occupied")
		return w.exec(Op{K: "setState", A: c[0], S: c[1], V: ""})
	case "suicide", "create":
		return w.exec(Op{K: kind, A: ai()})
	case "log":
		return w.exec(Op{K: kind, A: ai(), T: rapid.IntRange(0, 9).Draw(t, "txindex"), V: rapid.SampledFrom(datas).Draw(t, "data")})
	case "refund":
		return w.exec(Op{K: kind, N: rapid.SampledFrom([]uint64{0, 1, 15000, 24000, 1 << 40}).Draw(t, "refund")})
	case "preimage":
		return w.exec(Op{K: kind, V: rapid.SampledFrom(datas).Draw(t, "preimage")})
	case "snapshot", "finalise", "root", "observe":
		return w.exec(Op{K: kind})
	case "revert":
		n := len(w.ids)
		if n == 0 {
			return false
		}
		return w.exec(Op{K: kind, N: uint64(rapid.IntRange(0, n-1).Draw(t, "snap"))})
	case "commit":
		return w.exec(Op{K: kind, M: rapid.IntRange(0, 3).Draw(t, "continue"), F: rapid.Bool().Draw(t, "nextDeleteEmpty")})
	case "copy":
		return w.exec(Op{K: kind, M: rapid.IntRange(0, 1).Draw(t, "how"), F: rapid.Bool().Draw(t, "onCopy")})
	case "reopen":
		// any root committed so far in this case, the older ones included
		return w.exec(Op{K: kind, N: uint64(rapid.IntRange(0, len(w.history)-1).Draw(t, "which")),
			M: rapid.SampledFrom([]int{0, 0, 1, 2}).Draw(t, "then"), F: rapid.Bool().Draw(t, "nextDeleteEmpty")})
	}
	panic("unknown action " + kind)
}

func record(w *world, kindLabel string) {
	lbls := append(w.labelList(), kindLabel)
	ev.Case(w.nontrivial, w.canon(), lbls...)
	ev.Sample(w.summary())
}

// ---------- the state machine ----------

func TestStateMachine(t *testing.T) {
	flag.Set("rapid.steps", strconv.Itoa(ev.Pick(40, 100)))
	ev.Check(t, ev.N(3500, 100_000), func(t *rapid.T) {
		w := newWorld(t, "TestStateMachine", drawCase(t))
		a := actor{w}
		acts := map[string]func(*rapid.T){
			"": func(t *rapid.T) {
				if len(w.ids) != w.m.Depth() {
					t.Fatalf("harness error: snapshot stacks out of step")
				}
			},
		}
		reg := func(key, kind string) {
			acts[key] = func(t *rapid.T) {
				if !a.pre(kind) {
					t.Skip("not applicable")
				}
				a.do(t, kind)
			}
		}
		for _, k := range mutKinds {
			reg(k, k)
		}
		// weights: structure operations appear under several keys
		for _, k := range []string{"snapshot", "snapshot#2", "snapshot#3", "snapshot#4", "snapshot#5", "revert", "revert#2", "revert#3", "revert#4",
			"suicide#2", "create#2", "touch#2", "finalise", "root", "commit", "copy", "observe", "reopen", "reopen#2"} {
			reg(k, strings.SplitN(k, "#", 2)[0])
		}
		t.Repeat(acts)
		w.finish()
		record(w, "kind:state-machine")
	})
}

// ---------- history independence (metamorphic) ----------

// finalContent finalises the live state of w and returns root and content.
func finalRoot(w *world) []byte {
	got := w.s.IntermediateRoot(w.flag)
	w.m.Finalise(w.flag)
	w.sh.Finalise()
	w.ids, w.sinfo = nil, nil
	return got[:]
}

func TestHistoryIndependence(t *testing.T) {
	histKinds := append(append([]string{}, mutKinds...), "snapshot", "snapshot", "revert", "revert", "suicide", "create", "touch", "finalise")
	ev.Check(t, ev.N(1500, 30_000), func(t *rapid.T) {
		cs := drawCase(t)
		// history 1
		w1 := newWorld(t, "TestHistoryIndependence", cs)
		a1 := actor{w1}
		for i, n := 0, rapid.IntRange(1, ev.Pick(30, 80)).Draw(t, "len"); i < n; i++ {
			k := rapid.SampledFrom(histKinds).Draw(t, "kind")
			if a1.pre(k) {
				a1.do(t, k)
			}
		}
		h1 := append([]Op{}, w1.trace...)
		root1 := finalRoot(w1)
		if want := w1.m.Root(); !bytes.Equal(root1, want) {
			w1.fail("history 1: root %x, specification root of the content %x", root1, want)
		}

		// history 2a: the same operations with reverted detours inserted
		cs2 := *cs
		w2 := newWorld(t, "TestHistoryIndependence", &cs2)
		a2 := actor{w2}
		abandoned := false
		detours := 0
		detour := func() {
			if len(w2.ids) >= 8 {
				return
			}
			depth := len(w2.ids)
			w2.exec(Op{K: "snapshot"})
			for j, m := 0, rapid.IntRange(1, 4).Draw(t, "detourLen"); j < m; j++ {
				a2.do(t, rapid.SampledFrom(mutKinds).Draw(t, "detourKind"))
			}
			if !w2.exec(Op{K: "revert", N: uint64(depth)}) {
				abandoned = true // the revert was a known shape: the detour did not cancel
			}
			detours++
		}
		for _, o := range h1 {
			if abandoned {
				break
			}
			if rapid.IntRange(0, 3).Draw(t, "detourHere") == 0 {
				detour()
			}
			if !abandoned && !w2.exec(o) {
				abandoned = true
			}
		}
		if !abandoned && rapid.Bool().Draw(t, "detourAtEnd") {
			detour()
		}
		if !abandoned {
			root2 := finalRoot(w2)
			if !SameContent(&w1.m.content, &w2.m.content) {
				// only the RIPEMD exception makes a reverted detour leave a trace
				ev.Label("metamorphic:detour-left-trace")
			} else {
				if !bytes.Equal(root1, root2) {
					w2.fail("two histories with the same content give different roots: %x (plain) vs %x (with %d reverted detours)", root1, root2, detours)
				}
				if detours > 0 {
					ev.Label("metamorphic:detour-pair")
				}
			}
		} else {
			ev.Label("metamorphic:detour-pair-abandoned")
		}

		// history 2b: build the final content directly, accounts in shuffled order
		cs3 := *cs
		w3 := newWorld(t, "TestHistoryIndependence", &cs3)
		order := rapid.Permutation(w3.addrs).Draw(t, "order")
		target := &w1.m.content
		ok := true
		idx := map[Addr]int{}
		for i, ad := range w3.addrs {
			idx[ad] = i
		}
		for _, ad := range order {
			i := idx[ad]
			want, have := target.Accts[ad], w3.m.Accts[ad]
			switch {
			case want == nil && have == nil:
			case want == nil:
				ok = ok && w3.exec(Op{K: "suicide", A: i})
			default:
				if have == nil && want.Empty() && len(want.Store) == 0 {
					ok = ok && w3.exec(Op{K: "touch", A: i}) // creates an empty account (survives only without deleteEmpty)
				}
				if have == nil || have.Nonce != want.Nonce {
					ok = ok && w3.exec(Op{K: "setNonce", A: i, N: want.Nonce})
				}
				if have == nil || have.Bal.Cmp(want.Bal) != 0 {
					ok = ok && w3.exec(Op{K: "setBalance", A: i, V: want.Bal.Text(16)})
				}
				if have == nil && len(want.Code) > 0 || have != nil && !bytes.Equal(have.Code, want.Code) {
					ok = ok && w3.exec(Op{K: "setCode", A: i, V: hexOf(want.Code)})
				}
				for j, k := range slotPool {
					var cur Word
					if have != nil {
						cur = have.Store[k]
					}
					if cur != want.Store[k] {
						v := want.Store[k]
						ok = ok && w3.exec(Op{K: "setState", A: i, S: j, V: hexOf(v[:])})
					}
				}
			}
		}
		if ok {
			root3 := finalRoot(w3)
			if SameContent(target, &w3.m.content) {
				if !bytes.Equal(root1, root3) {
					w3.fail("two histories with the same content give different roots: %x (generated history) vs %x (direct construction)", root1, root3)
				}
				ev.Label("metamorphic:direct-pair")
			} else {
				// e.g. an untouched pre-existing empty account cannot be rebuilt once written to under deleteEmpty
				ev.Label("metamorphic:direct-not-constructible")
			}
		} else {
			ev.Label("metamorphic:direct-pair-abandoned")
		}
		lbls := append(w1.labelList(), "kind:history-pair")
		ev.Case(w1.nontrivial, append([]byte("pair:"), w1.canon()...), lbls...)
		ev.Sample(w1.summary())
	})
}

func hexOf(b []byte) string {
	const d = "0123456789abcdef"
	out := make([]byte, 0, len(b)*2)
	for _, x := range b {
		out = append(out, d[x>>4], d[x&15])
	}
	return string(out)
}

// ---------- fixed witnesses of the recorded findings ----------

type witness struct {
	key string
	cs  string
}

var witnesses = []witness{
	// a pre-existing empty account is written to inside a scope that is reverted; Finalise(true) deletes it
	{keyDirtyRevert, `{"addrs":["095e7baea6a6c7c4c2dfeb977efac326af552d87"],"pre":[{"a":0}],"flag":true,
	  "ops":[{"k":"snapshot"},{"k":"setBalance","v":"1"},{"k":"revert"},{"k":"root"}]}`},
	// a zero-value touch of a pre-existing empty account is reverted; a later write to it never reaches the trie
	{keyTouchRevert, `{"addrs":["095e7baea6a6c7c4c2dfeb977efac326af552d87"],"pre":[{"a":0}],"flag":false,
	  "ops":[{"k":"snapshot"},{"k":"touch"},{"k":"revert"},{"k":"setBalance","v":"5"},{"k":"root"}]}`},
	// a write after Commit to an account written before that Commit never reaches the trie
	{keyAfterCommit, `{"addrs":["095e7baea6a6c7c4c2dfeb977efac326af552d87"],"pre":[{"a":0,"bal":"7"}],"flag":false,
	  "ops":[{"k":"setBalance","v":"8"},{"k":"commit"},{"k":"setBalance","v":"9"},{"k":"root"}]}`},
}

func runCase(f failer, name string, cs *Case, noExclude bool) *world {
	ops := cs.Ops
	c := *cs
	c.Ops = nil
	w := newWorld(f, name, &c)
	w.noExclude = noExclude
	for _, o := range ops {
		w.exec(o)
	}
	w.finish()
	return w
}

func TestKnownFindings(t *testing.T) {
	for _, wt := range witnesses {
		var cs Case
		if err := json.Unmarshal([]byte(wt.cs), &cs); err != nil {
			t.Fatalf("witness %s: %v", wt.key, err)
		}
		msg := runCaught(func(f failer) { runCase(f, "TestKnownFindings", &cs, true) })
		ev.Label("witness-run")
		switch {
		case msg != "" && ev.Known(wt.key):
			ev.KnownFinding(wt.key)
		case msg != "":
			ev.SaveCase("TestKnownFindings-"+wt.key, cs)
			t.Errorf("witness %s fails and the finding is not listed as known: %s", wt.key, msg)
		case ev.Known(wt.key):
			t.Logf("finding %s is listed as known but its witness passes", wt.key)
		}
	}
}

// ---------- corpus and replay ----------

func replayFile(t *testing.T, path string) {
	b, err := os.ReadFile(path)
	if err != nil {
		t.Fatal(err)
	}
	var cs Case
	if err := json.Unmarshal(b, &cs); err != nil {
		t.Fatalf("%s: %v", path, err)
	}
	var w *world
	if msg := runCaught(func(f failer) { w = runCase(f, "TestCorpusReplay", &cs, false) }); msg != "" {
		t.Errorf("%s: %s", path, msg)
		return
	}
	lbls := append(w.labelList(), "corpus")
	ev.Case(w.nontrivial, append([]byte("corpus:"), w.canon()...), lbls...)
}

func TestCorpusReplay(t *testing.T) {
	dir := os.Getenv("VERIF_CORPUS")
	if dir == "" {
		if root := os.Getenv("VERIF_ROOT"); root != "" {
			dir = root + "/corpus/C09"
		} else {
			dir = "../../corpus/C09"
		}
	}
	ents, _ := os.ReadDir(dir)
	var names []string
	for _, e := range ents {
		if strings.HasSuffix(e.Name(), ".json") {
			names = append(names, e.Name())
		}
	}
	sort.Strings(names)
	for _, n := range names {
		replayFile(t, dir+"/"+n)
	}
}

// TestReplay re-runs one saved case file (JSON) without rapid.
func TestReplay(t *testing.T) {
	p := ev.ReplayPath()
	if p == "" {
		t.Skip("no VERIF_REPLAY")
	}
	replayFile(t, p)
}

// ---------- native fuzzing: bytes -> case ----------

var fuzzKinds = []string{"addBalance", "subBalance", "setBalance", "setNonce", "setCode", "setState", "suicide", "create", "touch", "log", "refund",
	"snapshot", "snapshot", "revert", "revert", "finalise", "root", "commit", "copy", "observe", "reopen"}

func decodeFuzz(data []byte) *Case {
	if len(data) < 3 {
		return nil
	}
	n := 2 + int(data[1])%5
	cs := &Case{Flag: data[0]&1 == 1, FreshDB: data[0]&2 == 2, Sparse: data[1]&128 == 128}
	off := int(data[0]>>2) % len(addrPool)
	for i := 0; i < n; i++ {
		cs.Addrs = append(cs.Addrs, addrPool[(off+i)%len(addrPool)])
	}
	data = data[2:]
	for i := 0; i < n && len(data) > 0; i++ {
		b := data[0]
		data = data[1:]
		p := PreAcct{A: i}
		switch b % 6 {
		case 0:
			continue
		case 1, 2:
		case 3:
			p.Bal = amounts[int(b/6)%len(amounts)]
		case 4:
			p.Nonce = 1
			p.Code = codes[1+int(b/6)%(len(codes)-1)]
			p.Store = map[int]string{int(b/32) % len(slotPool): words[2+int(b/6)%(len(words)-2)]}
		case 5:
			p.Store = map[int]string{int(b/32) % len(slotPool): words[2+int(b/6)%(len(words)-2)]}
		}
		cs.Pre = append(cs.Pre, p)
	}
	for len(data) >= 3 && len(cs.Ops) < 200 {
		k, ai, x := fuzzKinds[int(data[0])%len(fuzzKinds)], int(data[1])%n, int(data[2])
		data = data[3:]
		o := Op{K: k, A: ai}
		switch k {
		case "addBalance", "setBalance":
			o.V = amounts[x%len(amounts)]
			if k == "setBalance" && x >= 128 {
				o.V = "0"
			}
		case "subBalance":
			o.V = []string{"0", "1", "ff", "100"}[x%4]
		case "setNonce":
			o.N = nonces[x%len(nonces)]
		case "setCode":
			o.V = codes[x%len(codes)]
		case "setState":
			o.S = x % len(slotPool)
			o.V = words[(x/4)%len(words)]
		case "log":
			o.T = x % 10
			o.V = datas[(x/10)%len(datas)]
		case "refund":
			o.N = uint64(x) * 1000
		case "revert":
			o.N = uint64(x)
		case "commit":
			o.M = x % 4
			o.F = x&4 == 4
		case "copy":
			o.M = x % 2
			o.F = x&2 == 2
		case "reopen":
			o.N = uint64(x / 8)
			o.M = x % 3
			o.F = x&4 == 4
		}
		cs.Ops = append(cs.Ops, o)
	}
	return cs
}

func FuzzOps(f *testing.F) {
	f.Add([]byte{1, 0, 1, 11, 0, 0, 2, 0, 1, 13, 0, 0, 16, 0, 0})
	f.Add([]byte{0, 1, 1, 3, 11, 0, 0, 8, 0, 0, 13, 0, 0, 2, 0, 130, 16, 0, 0})
	f.Add([]byte{0, 0, 3, 2, 0, 1, 17, 0, 0, 2, 0, 2, 16, 0, 0})
	f.Add([]byte{3, 4, 4, 5, 1, 3, 0, 2, 11, 0, 0, 7, 0, 0, 6, 0, 0, 13, 0, 0, 5, 1, 9, 18, 0, 2, 16, 0, 0, 17, 0, 7, 0, 1, 1})
	f.Fuzz(func(t *testing.T, data []byte) {
		cs := decodeFuzz(data)
		if cs == nil {
			return
		}
		if msg := runCaught(func(f failer) { runCase(f, "FuzzOps", cs, false) }); msg != "" {
			t.Fatalf("%s", msg)
		}
	})
}
