package c09

// shadow.go: a small simulation of HOW core/state keeps its set of "dirty"
// accounts (a one-shot per-object callback plus journal undo), used for one
// purpose only: to recognise, before executing an operation, the exact shapes
// of the recorded known findings so that the generator can step around them
// (and count that). It never contributes to a verdict: every comparison is
// made against Model.
//
// Mechanism mirrored (statedb.go / state_object.go / journal.go):
//   - a live object fires onDirty once (address joins stateObjectsDirty), then
//     the callback is nil ("disarmed");
//   - createObject: the new object is dirty at once; undo of a creation drops
//     object and dirty mark; undo of a re-creation puts the previous object
//     back and leaves the dirty mark;
//   - touch: undo (not for 0x03, not if already touched) clears the dirty mark
//     when the touch was what disarmed the object - and leaves it disarmed;
//   - undo of balance/nonce/code/storage/suicide changes leaves the dirty mark;
//   - Finalise keeps the dirty set, Commit empties it - and leaves the objects
//     disarmed; Copy carries only dirty objects over, armed but marked dirty.
//
// With finding 3 repaired (fa0bdd5) Commit re-arms every live object and clears
// its touch mark, so a touch / revert after a Commit on the same StateDB is a
// "first touch" again (finding 2's shape recurs in every epoch).
//
// fixUndo / fixCommit switch the simulation to the repaired mechanism of
// PROPOSED_FIX_1 / PROPOSED_FIX_2 (used only while the other finding is still
// listed as known).

type shObj struct {
	armed   bool
	touched bool
}

type shEntry struct {
	kind        byte // 'c' create, 'r' reset, 't' touch, 'm' mutate
	a           Addr
	prevObj     *shObj
	prevDirty   bool
	prevTouched bool
}

type shRev struct{ id, idx int }

type Shadow struct {
	objs    map[Addr]*shObj
	dirty   map[Addr]bool
	journal []shEntry
	revs    []shRev
	// ever: addresses that were the target of a state-changing operation since
	// this StateDB was opened/Reset; stale: those among them for which a Commit
	// has happened since.
	ever  map[Addr]bool
	stale map[Addr]bool

	fixUndoDirty bool // finding 1 repaired
	fixUndoTouch bool // finding 2 repaired
	fixCommit    bool // finding 3 repaired
}

func NewShadow() *Shadow {
	return &Shadow{objs: map[Addr]*shObj{}, dirty: map[Addr]bool{}, ever: map[Addr]bool{}, stale: map[Addr]bool{}}
}

func (s *Shadow) obj(a Addr) *shObj {
	o := s.objs[a]
	if o == nil {
		o = &shObj{armed: true} // loaded from the trie on first use
		s.objs[a] = o
	}
	return o
}

func (s *Shadow) fire(o *shObj, a Addr) {
	if o.armed {
		s.dirty[a] = true
		o.armed = false
	}
}

func (s *Shadow) wasDirty(o *shObj, a Addr) bool {
	if s.fixUndoDirty || s.fixUndoTouch {
		return s.dirty[a]
	}
	return !o.armed
}

// Create: a state-changing call on an address with no (live) account.
func (s *Shadow) Create(a Addr) {
	s.ever[a] = true
	o := &shObj{armed: true}
	s.fire(o, a)
	s.journal = append(s.journal, shEntry{kind: 'c', a: a})
	s.objs[a] = o
}

// Reset: CreateAccount over an existing account.
func (s *Shadow) Reset(a Addr) {
	s.ever[a] = true
	prev := s.obj(a)
	e := shEntry{kind: 'r', a: a, prevObj: prev, prevDirty: s.dirty[a]}
	o := &shObj{armed: true}
	s.fire(o, a)
	s.journal = append(s.journal, e)
	s.objs[a] = o
}

// Touch: AddBalance(0) on an existing empty account.
func (s *Shadow) Touch(a Addr) {
	s.ever[a] = true
	o := s.obj(a)
	s.journal = append(s.journal, shEntry{kind: 't', a: a, prevTouched: o.touched, prevDirty: s.wasDirty(o, a)})
	s.fire(o, a)
	o.touched = true
}

// Mutate: any other journaled change of an existing account.
func (s *Shadow) Mutate(a Addr) {
	s.ever[a] = true
	o := s.obj(a)
	s.journal = append(s.journal, shEntry{kind: 'm', a: a, prevDirty: s.wasDirty(o, a)})
	s.fire(o, a)
}

// Other: a journal entry that concerns no account (log, refund, preimage).
func (s *Shadow) Other() { s.journal = append(s.journal, shEntry{kind: 'o'}) }

func (s *Shadow) Snapshot(id int) { s.revs = append(s.revs, shRev{id, len(s.journal)}) }

func (s *Shadow) clone() *Shadow {
	n := NewShadow()
	n.fixUndoDirty, n.fixUndoTouch, n.fixCommit = s.fixUndoDirty, s.fixUndoTouch, s.fixCommit
	remap := map[*shObj]*shObj{}
	cp := func(o *shObj) *shObj {
		if o == nil {
			return nil
		}
		if c, ok := remap[o]; ok {
			return c
		}
		c := *o
		remap[o] = &c
		return &c
	}
	for a, o := range s.objs {
		n.objs[a] = cp(o)
	}
	for a := range s.dirty {
		n.dirty[a] = true
	}
	for a := range s.ever {
		n.ever[a] = true
	}
	for a := range s.stale {
		n.stale[a] = true
	}
	for _, e := range s.journal {
		e.prevObj = cp(e.prevObj)
		n.journal = append(n.journal, e)
	}
	n.revs = append(n.revs, s.revs...)
	return n
}

// RevertIdx undoes the journal back to the i-th live snapshot.
func (s *Shadow) RevertIdx(i int) {
	idx := s.revs[i].idx
	for j := len(s.journal) - 1; j >= idx; j-- {
		e := s.journal[j]
		switch e.kind {
		case 'c':
			delete(s.objs, e.a)
			delete(s.dirty, e.a)
		case 'r':
			s.objs[e.a] = e.prevObj
			if s.fixUndoDirty && !e.prevDirty {
				delete(s.dirty, e.a)
			}
		case 't':
			if !e.prevTouched && e.a != Ripemd {
				o := s.obj(e.a)
				o.touched = false
				if !e.prevDirty {
					delete(s.dirty, e.a)
					if s.fixUndoTouch {
						o.armed = true
					}
				}
			}
		case 'm':
			if s.fixUndoDirty && !e.prevDirty {
				delete(s.dirty, e.a)
				s.obj(e.a).armed = true
			}
		}
	}
	s.journal = s.journal[:idx]
	s.revs = s.revs[:i]
}

// Lost lists addresses whose live object can no longer report a change:
// disarmed yet not marked dirty.
func (s *Shadow) Lost() map[Addr]bool {
	out := map[Addr]bool{}
	for a, o := range s.objs {
		if !o.armed && !s.dirty[a] {
			out[a] = true
		}
	}
	return out
}

func (s *Shadow) IsLost(a Addr) bool {
	o := s.objs[a]
	return o != nil && !o.armed && !s.dirty[a]
}

func (s *Shadow) Dirty(a Addr) bool { return s.dirty[a] }

// Finalise: journal and snapshots end; dirty marks stay.
func (s *Shadow) Finalise() {
	s.journal = nil
	s.revs = nil
}

// Gone: the account was deleted by a finalisation; the next state-changing
// call creates a new object.
func (s *Shadow) Commit() {
	s.Finalise()
	for a := range s.ever {
		s.stale[a] = true
	}
	s.dirty = map[Addr]bool{}
	if s.fixCommit {
		for _, o := range s.objs {
			o.armed = true
			// the repaired Commit (fa0bdd5) also forgets the touch of the finished
			// transaction: the next zero-value touch is journaled as a first touch
			o.touched = false
		}
	}
}

// CopyOf is the shadow of StateDB.Copy: only dirty objects carry over; they
// are armed again but already marked dirty.
func (s *Shadow) CopyOf() *Shadow {
	n := NewShadow()
	n.fixUndoDirty, n.fixUndoTouch, n.fixCommit = s.fixUndoDirty, s.fixUndoTouch, s.fixCommit
	for a := range s.dirty {
		n.dirty[a] = true
		n.objs[a] = &shObj{armed: true}
		n.ever[a] = true
	}
	return n
}
