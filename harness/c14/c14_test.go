// C14 — A proof-of-work seal is accepted exactly when it meets the target.
//
// Oracle: refpow.go (independent evaluation of the acceptance formula: refrlp
// encodings, keccak / argon2id called directly, ethash in test-mode sizes written
// from the specification, fork map -> version rule).
package c14

import (
	"bytes"
	"context"
	"encoding/binary"
	"encoding/hex"
	"encoding/json"
	"fmt"
	"math/big"
	"os"
	"sort"
	"strconv"
	"strings"
	"sync"
	"testing"

	"gitlab.com/aquachain/aquachain/common"
	"gitlab.com/aquachain/aquachain/common/log"
	"gitlab.com/aquachain/aquachain/consensus/aquahash"
	"gitlab.com/aquachain/aquachain/core/types"
	"gitlab.com/aquachain/aquachain/params"
	"pgregory.net/rapid"
	"verifharness/ev"
)

// maxHeight: VerifySeal refuses numbers at or above 2048 epochs (its DAG size
// table ends there); the explored domain stays below it (see Assumptions).
const maxHeight = 2048*30000 - 1

func TestMain(m *testing.M) {
	log.Root().SetHandler(log.DiscardHandler())
	ev.MustHit(
		"version:1", "version:2", "version:3", "version:4",
		"accept", "reject:pow", "reject:mix", "reject:difficulty",
		"accept:version:1", "accept:version:2", "accept:version:3", "accept:version:4",
		"nonce:first-valid", "nonce:last-invalid", "mix-wrong+pow-ok", "d:0", "d:negative", "d:1", "d:2^256-1",
		"engine:test", "engine:nodag", "near-target",
		"threads:1", "threads:2", "threads:4", "threads:16",
		"seal:version:1", "seal:version:2", "seal:version:3", "seal:version:4", "seal:crosses-version-fork",
		"insert:accepted", "insert:tampered-rejected", "seal:uncle", "seal:uncle-of-older-version",
		"seal:input-version:schedule", "seal:input-version:unset", "seal:input-version:other", "witness", "corpus", "fuzz-seed",
		"schedule:mainnet:HF5", "schedule:mainnet+hf8flag:HF8", "schedule:testnet:HF5", "schedule:testnet:HF8",
		"schedule:testnet2:HF5", "schedule:testnet2:HF8", "schedule:testnet2:HF9", "schedule:testnet3:HF5",
		"schedule:test:HF5", "schedule:all:HF5", "schedule:custom", "fork-boundary-height",
		"hash:version:1", "hash:version:2", "hash:version:3", "hash:version:4", "setversion",
	)
	ev.Main(m, ev.Config{
		Property: "C14",
		Level:    "exploration",
		Rule: "cases: (a) rapid-generated (fork schedule, height, 13 seal-free header fields, difficulty class, nonce, mix digest) judged by VerifySeal on a non-fake engine against the independent formula; " +
			"nonces are random, or the first valid / last invalid nonce found by the reference from a random start (adjacent nonces straddling acceptance), difficulties in {1,2,3,4..16,17..256,2^32,2^255,2^256-1,2^256,2^256+1,2^300,0,-1,-big}; " +
			"(b) GetBlockVersion at heights fork-2..fork+2 of every built-in schedule (enumerated) and of rapid-generated custom fork maps, Header.Hash/HashNoNonce/SetVersion against H_version(refrlp(header)); " +
			"(c) real Seal with 1/2/4/16 threads on low-difficulty chains of 1..3 blocks, each sealed block judged by the reference, VerifySeal and a full InsertChain (after an RLP round trip) on a non-fake engine, plus tampered-nonce / tampered-mix copies that must be refused. " +
			"non-trivial = work hash within a factor two of the target with d>1, or wrong mix with valid work, or d<=0, or a height within 2 of a version-changing fork, or a sealed block; distinct by hash of (version, seal-free encoding, nonce, mix, difficulty)",
		Assumptions: []string{
			"golang.org/x/crypto argon2.IDKey and sha3 legacy Keccak are correct (the reference calls them directly; only the parameter table, seed layout, encodings and comparison are independent of the code under test)",
			"the seal-free hash rule is taken as deployed: keccak-256 of the 13-field RLP for versions 1, 2, 4, argon2id(16 KiB) for version 3",
			"version 1 (ethash) is explored in the code's own test mode only (1 KiB cache, 32 KiB dataset); the 1 GiB DAG of real mainnet blocks < 22800 is out of reach in the sandbox",
			"the difficulty is part of the hashed seal-free header, so a work hash equal to target or target+-1 cannot be constructed (2^-256 event): the exact boundary is approached by adjacent nonces straddling acceptance and by relative nearness only; mutants '> target' -> '>= target' and 2^256 -> 2^256-1 are observationally equivalent on every reachable input",
			"heights are < 61,440,000 (VerifySeal returns 'nonce out of range' above the ethash size table for every version; unreachable for centuries at 240 s blocks)",
			"header.Version is set by the caller to ChainConfig.GetBlockVersion(height), as every caller in the node does; InsertChain derives it itself for batches of >= 2 blocks",
		},
	})
}

// ---------------- schedules ----------------

type schedule struct {
	name  string
	cfg   *params.ChainConfig
	forks map[int]int64 // version-changing forks, transcribed by hand from the network definitions
}

func copyConfigWithHF(c *params.ChainConfig, hf int, at int64) *params.ChainConfig {
	cp := *c
	cp.HF = params.ForkMap{}
	for k, v := range c.HF {
		if v != nil {
			cp.HF[k] = new(big.Int).Set(v)
		}
	}
	cp.HF[hf] = big.NewInt(at)
	cp.ChainId = new(big.Int).Set(c.ChainId)
	return &cp
}

func builtinSchedules() []schedule {
	return []schedule{
		{"mainnet", params.MainnetChainConfig, map[int]int64{5: 22800}},
		{"mainnet+hf8flag", copyConfigWithHF(params.MainnetChainConfig, 8, 3_000_000), map[int]int64{5: 22800, 8: 3_000_000}},
		{"testnet", params.TestnetChainConfig, map[int]int64{5: 5, 8: 650}},
		{"testnet2", params.Testnet2ChainConfig, map[int]int64{5: 0, 8: 8, 9: 19}},
		{"testnet3", params.Testnet3ChainConfig, map[int]int64{5: 0}},
		{"test", params.TestChainConfig, map[int]int64{5: 5}},
		{"all", params.AllAquahashProtocolChanges, map[int]int64{5: 0}},
	}
}

func customConfig(forks map[int]int64, chainID int64) *params.ChainConfig {
	hf := params.ForkMap{}
	for k, v := range forks {
		hf[k] = big.NewInt(v)
	}
	return &params.ChainConfig{
		ChainId: big.NewInt(chainID), HomesteadBlock: big.NewInt(0), EIP150Block: big.NewInt(0),
		Aquahash: new(params.AquahashConfig), HF: hf,
	}
}

func versionForks(forks map[int]int64) map[int]int64 {
	out := map[int]int64{}
	for _, k := range []int{5, 8, 9} {
		if v, ok := forks[k]; ok {
			out[k] = v
		}
	}
	return out
}

// drawCustomForks draws a fork map in which HF5 <= HF8 <= HF9 where present,
// plus forks that must not influence the version.
func drawCustomForks(t *rapid.T) map[int]int64 {
	forks := map[int]int64{}
	base := rapid.SampledFrom([]int64{0, 0, 1, 2, 3, 5, 7, 100, 22800, 29999, 30000, 1_000_000}).Draw(t, "hf5at")
	cur := base
	// bit0: HF5, bit1: HF8, bit2: HF9, bit3: noise forks
	present := rapid.SampledFrom([]int{0, 1, 2, 3, 3, 4, 5, 5, 6, 7, 7, 7, 8, 9, 11, 11, 13, 14, 15, 15, 15}).Draw(t, "present")
	if present&1 != 0 {
		forks[5] = cur
	}
	if present&2 != 0 {
		cur += rapid.SampledFrom([]int64{0, 1, 2, 3, 8, 645, 30000}).Draw(t, "hf8gap")
		forks[8] = cur
	}
	if present&4 != 0 {
		cur += rapid.SampledFrom([]int64{0, 1, 2, 3, 11, 1000}).Draw(t, "hf9gap")
		forks[9] = cur
	}
	if present&8 != 0 {
		for _, k := range []int{1, 2, 3, 4, 6, 7} {
			if rapid.Bool().Draw(t, "noise"+strconv.Itoa(k)) {
				forks[k] = rapid.Int64Range(0, 40).Draw(t, "noiseat")
			}
		}
	}
	return forks
}

func heightCandidates(forks map[int]int64) (cands []uint64, boundary map[uint64]bool) {
	boundary = map[uint64]bool{}
	// fork windows first, latest fork first (rapid favours the front of a sample list)
	for _, k := range []int{9, 8, 5} {
		at, ok := forks[k]
		if !ok {
			continue
		}
		for d := int64(2); d >= -2; d-- {
			if h := at + d; h >= 0 && h <= maxHeight {
				cands = append(cands, uint64(h))
				boundary[uint64(h)] = true
			}
		}
	}
	cands = append(cands, maxHeight, 60000, 59999, 30001, 30000, 29999, 2, 1, 0)
	return
}

// ---------------- the case type (also the replay / corpus file format) ----------------

type sealCase struct {
	Schedule    string           `json:"schedule"` // built-in schedule name, or "custom"
	Forks       map[string]int64 `json:"forks"`    // custom schedule: fork number -> height
	ChainID     int64            `json:"chain_id"`
	Engine      string           `json:"engine"` // "test" (test-mode DAG) | "nodag" (StartVersion 2)
	ParentHash  string           `json:"parent_hash"`
	UncleHash   string           `json:"uncle_hash"`
	Coinbase    string           `json:"coinbase"`
	Root        string           `json:"root"`
	TxHash      string           `json:"tx_hash"`
	ReceiptHash string           `json:"receipt_hash"`
	Bloom       string           `json:"bloom"`
	Difficulty  string           `json:"difficulty"` // decimal, may be <= 0
	Number      uint64           `json:"number"`
	GasLimit    uint64           `json:"gas_limit"`
	GasUsed     uint64           `json:"gas_used"`
	Time        string           `json:"time"`
	Extra       string           `json:"extra"`
	MixDigest   string           `json:"mix_digest"`
	Nonce       string           `json:"nonce"`
	Note        string           `json:"note,omitempty"`
}

func unhex(s string, n int) []byte {
	b, err := hex.DecodeString(s)
	if err != nil {
		panic("bad hex in case: " + s)
	}
	if n >= 0 {
		out := make([]byte, n)
		copy(out[max(0, n-len(b)):], b)
		return out
	}
	return b
}

func (c *sealCase) ref() *RefHeader {
	h := &RefHeader{GasLimit: c.GasLimit, GasUsed: c.GasUsed, Number: new(big.Int).SetUint64(c.Number)}
	copy(h.ParentHash[:], unhex(c.ParentHash, 32))
	copy(h.UncleHash[:], unhex(c.UncleHash, 32))
	copy(h.Coinbase[:], unhex(c.Coinbase, 20))
	copy(h.Root[:], unhex(c.Root, 32))
	copy(h.TxHash[:], unhex(c.TxHash, 32))
	copy(h.ReceiptHash[:], unhex(c.ReceiptHash, 32))
	copy(h.Bloom[:], unhex(c.Bloom, 256))
	copy(h.MixDigest[:], unhex(c.MixDigest, 32))
	copy(h.Nonce[:], unhex(c.Nonce, 8))
	h.Extra = unhex(c.Extra, -1)
	var ok bool
	if h.Difficulty, ok = new(big.Int).SetString(c.Difficulty, 10); !ok {
		panic("bad difficulty in case")
	}
	if h.Time, ok = new(big.Int).SetString(c.Time, 10); !ok {
		panic("bad time in case")
	}
	return h
}

func toTypes(h *RefHeader, version params.HeaderVersion) *types.Header {
	th := &types.Header{
		ParentHash: h.ParentHash, UncleHash: h.UncleHash, Coinbase: h.Coinbase, Root: h.Root, TxHash: h.TxHash,
		ReceiptHash: h.ReceiptHash, Bloom: h.Bloom, Difficulty: new(big.Int).Set(h.Difficulty), Number: new(big.Int).Set(h.Number),
		GasLimit: h.GasLimit, GasUsed: h.GasUsed, Time: new(big.Int).Set(h.Time), Extra: append([]byte{}, h.Extra...),
		MixDigest: h.MixDigest, Nonce: h.Nonce, Version: version,
	}
	return th
}

func fromTypes(th *types.Header) *RefHeader {
	return &RefHeader{
		ParentHash: th.ParentHash, UncleHash: th.UncleHash, Coinbase: th.Coinbase, Root: th.Root, TxHash: th.TxHash,
		ReceiptHash: th.ReceiptHash, Bloom: th.Bloom, Difficulty: new(big.Int).Set(th.Difficulty), Number: new(big.Int).Set(th.Number),
		GasLimit: th.GasLimit, GasUsed: th.GasUsed, Time: new(big.Int).Set(th.Time), Extra: append([]byte{}, th.Extra...),
		MixDigest: th.MixDigest, Nonce: th.Nonce,
	}
}

func (c *sealCase) schedule() schedule {
	if c.Schedule != "custom" {
		for _, s := range builtinSchedules() {
			if s.name == c.Schedule {
				return s
			}
		}
		panic("unknown schedule " + c.Schedule)
	}
	forks := map[int]int64{}
	for k, v := range c.Forks {
		n, err := strconv.Atoi(k)
		if err != nil {
			panic("bad fork key")
		}
		forks[n] = v
	}
	id := c.ChainID
	if id == 0 {
		id = 1414
	}
	return schedule{"custom", customConfig(forks, id), versionForks(forks)}
}

func (c *sealCase) json() string {
	b, _ := json.Marshal(c)
	return string(b)
}

// ---------------- engines ----------------

type stubChain struct{ cfg *params.ChainConfig }

func (s stubChain) Config() *params.ChainConfig                 { return s.cfg }
func (s stubChain) GetContext() context.Context                 { return context.Background() }
func (s stubChain) CurrentHeader() *types.Header                { return nil }
func (s stubChain) GetHeader(common.Hash, uint64) *types.Header { return nil }
func (s stubChain) GetHeaderByNumber(uint64) *types.Header      { return nil }
func (s stubChain) GetHeaderByHash(common.Hash) *types.Header   { return nil }
func (s stubChain) GetBlock(common.Hash, uint64) *types.Block   { return nil }

var (
	engOnce  sync.Once
	dagDir   string
	engTest  *aquahash.Aquahash
	engNoDag *aquahash.Aquahash
)

func newTestEngine() *aquahash.Aquahash {
	return aquahash.New(&aquahash.Config{CachesInMem: 2, DatasetsInMem: 1, DatasetsOnDisk: 2, DatasetDir: dagDir, PowMode: aquahash.ModeTest})
}

func engines() (*aquahash.Aquahash, *aquahash.Aquahash) {
	engOnce.Do(func() {
		// one shared directory (the engine's on-disk DAG store tolerates several
		// processes); the driver points TMPDIR into the shard's run directory
		dagDir = os.TempDir() + "/c14dag"
		if err := os.MkdirAll(dagDir, 0o755); err != nil {
			panic(err)
		}
		engTest = newTestEngine()
		// what aqua/backend.go builds for chains whose genesis version is > 1
		engNoDag = aquahash.New(&aquahash.Config{StartVersion: 2})
	})
	return engTest, engNoDag
}

// VerifySeal prints a diagnostic to stdout on a wrong mix digest; keep the
// shard log readable.
var devnull, _ = os.OpenFile(os.DevNull, os.O_WRONLY, 0)

func quietStdout(f func()) {
	old := os.Stdout
	if devnull != nil {
		os.Stdout = devnull
	}
	defer func() { os.Stdout = old }()
	f()
}

// ---------------- the oracle for one case ----------------

type caseInfo struct {
	version int
	verdict Verdict
	gotErr  error
}

type failer func(string, ...interface{})

func checkSeal(fail failer, c *sealCase) (info caseInfo) {
	rh := c.ref()
	if !rh.Number.IsUint64() || rh.Number.Uint64() > maxHeight {
		fail("harness error: height outside the explored domain")
		return
	}
	s := c.schedule()
	number := rh.Number.Uint64()

	// --- version is a function of the height and the schedule only ---
	want := RefVersion(s.forks, number)
	got := s.cfg.GetBlockVersion(new(big.Int).SetUint64(number))
	info.version = want
	if int(got) != want {
		fail("GetBlockVersion(%d) on schedule %s %v = %d, reference says %d\ncase=%s", number, s.name, s.forks, got, want, c.json())
		return
	}
	th := toTypes(rh, got)

	// --- header / seal-free / miner hashes are H_version of the reference encodings ---
	if rh.Difficulty.Sign() >= 0 {
		if h := th.Hash(); !bytes.Equal(h[:], rh.BlockHash(want)) {
			fail("Header.Hash() under version %d = %x, reference H_v(rlp(header)) = %x\ncase=%s", want, h, rh.BlockHash(want), c.json())
			return
		}
		if h := th.HashNoNonce(); !bytes.Equal(h[:], rh.SealFreeHash(want)) {
			fail("Header.HashNoNonce() under version %d = %x, reference = %x\ncase=%s", want, h, rh.SealFreeHash(want), c.json())
			return
		}
	}

	info.verdict = rh.Judge(want)

	if want >= 2 && rh.Difficulty.Sign() > 0 {
		if h := types.NewBlockWithHeader(th).MinerHash(); !bytes.Equal(h[:], info.verdict.Result) {
			fail("Block.MinerHash() under version %d = %x, reference work hash = %x\ncase=%s", want, h, info.verdict.Result, c.json())
			return
		}
	}

	// --- VerifySeal accepts exactly when the formula holds ---
	et, en := engines()
	eng := et
	if c.Engine == "nodag" && want >= 2 {
		eng = en
	}
	before := *th
	call := func() { info.gotErr = eng.VerifySeal(stubChain{s.cfg}, th) }
	if info.verdict.Reason == "mix" {
		quietStdout(call)
	} else {
		call()
	}
	if (info.gotErr == nil) != info.verdict.Accept {
		fail("VerifySeal = %v, reference verdict: accept=%v (%s) version=%d target=%v result=%x expected-mix=%x\ncase=%s",
			info.gotErr, info.verdict.Accept, info.verdict.Reason, want, info.verdict.Target, info.verdict.Result, info.verdict.Mix, c.json())
		return
	}
	// the header is an input only
	if th.Version != before.Version || th.Nonce != before.Nonce || th.MixDigest != before.MixDigest ||
		th.Difficulty.Cmp(rh.Difficulty) != 0 || th.Number.Cmp(rh.Number) != 0 || th.Time.Cmp(rh.Time) != 0 || !bytes.Equal(th.Extra, rh.Extra) {
		fail("VerifySeal modified the header\ncase=%s", c.json())
	}
	return
}

// ---------------- generators ----------------

func drawBytes(t *rapid.T, n int, label string) []byte {
	return rapid.SliceOfN(rapid.Byte(), n, n).Draw(t, label)
}

func hx(b []byte) string { return hex.EncodeToString(b) }

var difficultyClasses = []string{"1", "2", "2", "3", "3", "small", "small", "small", "small", "medium", "medium", "medium",
	"2^32", "2^255", "2^256-1", "2^256", "2^256+1", "huge", "0", "-1", "-big"}

func drawDifficulty(t *rapid.T) (*big.Int, string) {
	cl := rapid.SampledFrom(difficultyClasses).Draw(t, "dclass")
	one := big.NewInt(1)
	switch cl {
	case "1", "2", "3", "0", "-1":
		n, _ := strconv.Atoi(cl)
		return big.NewInt(int64(n)), cl
	case "small":
		return big.NewInt(rapid.Int64Range(4, 16).Draw(t, "dsmall")), cl
	case "medium":
		return big.NewInt(rapid.Int64Range(17, 256).Draw(t, "dmedium")), cl
	case "2^32":
		return new(big.Int).Lsh(one, 32), cl
	case "2^255":
		return new(big.Int).Lsh(one, 255), cl
	case "2^256-1":
		return new(big.Int).Sub(new(big.Int).Lsh(one, 256), one), cl
	case "2^256":
		return new(big.Int).Lsh(one, 256), cl
	case "2^256+1":
		return new(big.Int).Add(new(big.Int).Lsh(one, 256), one), cl
	case "huge":
		return new(big.Int).Lsh(big.NewInt(rapid.Int64Range(1, 1000).Draw(t, "dhuge")), 300), cl
	default: // -big
		return new(big.Int).Neg(new(big.Int).SetBytes(drawBytes(t, rapid.IntRange(1, 33).Draw(t, "dneglen"), "dneg"))), cl
	}
}

func drawSchedule(t *rapid.T) (schedule, map[string]int64) {
	bs := builtinSchedules()
	// weights: mainnet 1, mainnet+hf8flag 2, testnet 2, testnet2 4, testnet3 1, test 1, all 1, custom 6
	pick := []int{3, -1, 3, -1, 3, -1, 3, -1, -1, -1, 1, 2, 1, 2, 0, 4, 5, 6} // rapid favours the front
	if k := pick[rapid.IntRange(0, len(pick)-1).Draw(t, "schedule")]; k >= 0 {
		return bs[k], nil
	}
	forks := drawCustomForks(t)
	js := map[string]int64{}
	for a, b := range forks {
		js[strconv.Itoa(a)] = b
	}
	return schedule{"custom", customConfig(forks, 1414), versionForks(forks)}, js
}

func drawHeight(t *rapid.T, forks map[int]int64) (uint64, bool) {
	cands, boundary := heightCandidates(forks)
	if rapid.IntRange(0, 9).Draw(t, "hmode") < 8 {
		h := rapid.SampledFrom(cands).Draw(t, "height")
		return h, boundary[h]
	}
	h := rapid.Uint64Range(0, maxHeight).Draw(t, "heightU")
	return h, boundary[h]
}

// drawHeaderCase draws everything except nonce and mix.
func drawHeaderCase(t *rapid.T) (*sealCase, schedule, string) {
	s, customForks := drawSchedule(t)
	height, _ := drawHeight(t, s.forks)
	d, dclass := drawDifficulty(t)
	bloom := make([]byte, 256)
	for i, n := 0, rapid.IntRange(0, 6).Draw(t, "bloombits"); i < n; i++ {
		p := rapid.IntRange(0, 2047).Draw(t, "bloombit")
		bloom[p/8] |= 1 << (p % 8)
	}
	c := &sealCase{
		Schedule: s.name, Forks: customForks, ChainID: 1414,
		Engine:     rapid.SampledFrom([]string{"test", "nodag"}).Draw(t, "engine"),
		ParentHash: hx(drawBytes(t, 32, "parent")), UncleHash: hx(drawBytes(t, 32, "uncles")), Coinbase: hx(drawBytes(t, 20, "coinbase")),
		Root: hx(drawBytes(t, 32, "root")), TxHash: hx(drawBytes(t, 32, "txhash")), ReceiptHash: hx(drawBytes(t, 32, "rcpt")),
		Bloom: hx(bloom), Difficulty: d.String(), Number: height,
		GasLimit: rapid.Uint64().Draw(t, "gaslimit"), GasUsed: rapid.Uint64().Draw(t, "gasused"),
		Time:  new(big.Int).SetBytes(rapid.SliceOfN(rapid.Byte(), 0, 9).Draw(t, "time")).String(),
		Extra: hx(rapid.SliceOfN(rapid.Byte(), 0, 40).Draw(t, "extra")),
	}
	return c, s, dclass
}

// powSearch finds, from start, the first nonce the reference accepts (by work
// only) and the nonce just before it. tries bounds the search.
func powSearch(rh *RefHeader, version int, start uint64, tries int) (first uint64, found bool, steps int) {
	sf := rh.SealFreeHash(version)
	target := Target(rh.Difficulty)
	epoch := rh.Number.Uint64() / 30000
	for i := 0; i < tries; i++ {
		n := start + uint64(i)
		var res []byte
		if version == 1 {
			_, res = refHashimoto(epoch, sf, n)
		} else {
			seed := make([]byte, 40)
			copy(seed, sf)
			binary.LittleEndian.PutUint64(seed[32:], n)
			res = hashV(version, seed)
		}
		if new(big.Int).SetBytes(res).Cmp(target) <= 0 {
			return n, true, i
		}
	}
	return 0, false, tries
}

func be8(n uint64) []byte {
	b := make([]byte, 8)
	binary.BigEndian.PutUint64(b, n)
	return b
}

// ---------------- (a) VerifySeal against the formula ----------------

func TestVerifySeal(t *testing.T) {
	ev.Check(t, ev.N(9000, 700_000), func(t *rapid.T) {
		c, s, dclass := drawHeaderCase(t)
		version := RefVersion(s.forks, c.Number)
		_, boundary := heightCandidates(s.forks)
		rh := c.ref()

		// nonce
		nmode := rapid.SampledFrom([]string{"random", "random", "first-valid", "first-valid", "last-invalid", "last-invalid", "special"}).Draw(t, "nmode")
		start := rapid.Uint64().Draw(t, "nonce")
		nonce := start
		nlabel := "nonce:random"
		minable := rh.Difficulty.Sign() > 0 && rh.Difficulty.BitLen() <= 9
		switch {
		case nmode == "special":
			nonce = rapid.SampledFrom([]uint64{0, 1, 0xff, 0x100, 1 << 32, 1 << 63, 1<<64 - 1, 0x0102030405060708, 0xff00000000000000}).Draw(t, "nspecial")
			nlabel = "nonce:special"
		case (nmode == "first-valid" || nmode == "last-invalid") && minable:
			dd := int(rh.Difficulty.Int64())
			first, found, steps := powSearch(rh, version, start, 12*dd+24)
			switch {
			case !found:
				nlabel = "nonce:search-exhausted"
			case nmode == "first-valid":
				nonce, nlabel = first, "nonce:first-valid"
			case steps > 0:
				nonce, nlabel = first-1, "nonce:last-invalid"
			default:
				// the start nonce is already valid: walk on to the first invalid one
				nonce, nlabel = first, "nonce:first-valid"
				for i := uint64(1); i < 64 && dd > 1; i++ {
					_, ok, st := powSearch(rh, version, first+i, 1)
					if !ok && st == 1 {
						nonce, nlabel = first+i, "nonce:last-invalid"
						break
					}
				}
			}
		}
		c.Nonce = hx(be8(nonce))
		copy(rh.Nonce[:], be8(nonce))

		// mix digest
		mmode := rapid.SampledFrom([]string{"expected", "expected", "expected", "expected", "flip", "random", "zero"}).Draw(t, "mmode")
		expMix := make([]byte, 32)
		if version == 1 && rh.Difficulty.Sign() > 0 {
			expMix, _ = rh.Pow(1)
		}
		mix := append([]byte{}, expMix...)
		switch mmode {
		case "flip":
			bit := rapid.IntRange(0, 255).Draw(t, "mixbit")
			mix[bit/8] ^= 1 << (bit % 8)
		case "random":
			mix = drawBytes(t, 32, "mix")
		case "zero":
			mix = make([]byte, 32)
		}
		c.MixDigest = hx(mix)

		info := checkSeal(failer(t.Fatalf), c)

		v := info.verdict
		lbls := []string{"version:" + strconv.Itoa(version), "hash:version:" + strconv.Itoa(version), nlabel, "d:" + dclass, "engine:" + c.Engine, "schedule-used:" + s.name}
		if rh.Difficulty.Sign() < 0 {
			lbls = append(lbls, "d:negative")
		}
		if v.Accept {
			lbls = append(lbls, "accept", "accept:version:"+strconv.Itoa(version))
		} else {
			lbls = append(lbls, "reject:"+v.Reason)
		}
		nt := rh.Difficulty.Sign() <= 0
		if rh.Difficulty.Sign() > 0 {
			if !v.MixOK && v.PowOK {
				lbls = append(lbls, "mix-wrong+pow-ok")
				nt = true
			}
			if v.RelNear && rh.Difficulty.Cmp(big.NewInt(1)) > 0 {
				lbls = append(lbls, "near-target")
				nt = true
			}
		}
		if boundary[c.Number] {
			lbls = append(lbls, "fork-boundary-height")
			nt = true
		}
		canon := append([]byte{byte(version)}, rh.SealFreeEncoding()...)
		canon = append(append(canon, rh.Nonce[:]...), mix...)
		ev.Case(nt, canon, lbls...)
		ev.Sample(map[string]interface{}{"kind": "verifyseal", "version": version, "accept": v.Accept, "reason": v.Reason, "case": c})
	})
}

// ---------------- (b) fork schedules, header hashes, SetVersion ----------------

func TestBuiltinSchedules(t *testing.T) {
	for _, s := range builtinSchedules() {
		// the transcription and the live map must agree on the version-changing forks
		for _, hf := range []int{5, 8, 9} {
			at, ok := s.forks[hf]
			live := s.cfg.HF[hf]
			if ok != (live != nil) || (ok && live.Int64() != at) {
				t.Fatalf("schedule %s: HF%d is %v in params, %v (present=%v) in the transcription", s.name, hf, live, at, ok)
			}
		}
		cands, boundary := heightCandidates(s.forks)
		for _, h := range cands {
			want := RefVersion(s.forks, h)
			got := s.cfg.GetBlockVersion(new(big.Int).SetUint64(h))
			if int(got) != want {
				ev.SaveCase("TestBuiltinSchedules", map[string]interface{}{"schedule": s.name, "height": h, "got": int(got), "want": want})
				t.Fatalf("schedule %s: GetBlockVersion(%d) = %d, reference %d", s.name, h, got, want)
			}
			var lbls []string
			for _, hf := range []int{5, 8, 9} {
				if at, ok := s.forks[hf]; ok && int64(h) >= at-2 && int64(h) <= at+2 {
					lbls = append(lbls, fmt.Sprintf("schedule:%s:HF%d", s.name, hf))
				}
			}
			ev.Case(boundary[h], []byte(fmt.Sprintf("sched:%s:%d", s.name, h)), lbls...)
		}
	}
	ev.Exhaustive("heights fork-2..fork+2 of HF5/HF8/HF9 (and 0,1,2, epoch edges, max height) for mainnet, mainnet with the hf8 flag, testnet, testnet2, testnet3, test, all")
}

func TestScheduleAndHashes(t *testing.T) {
	ev.Check(t, ev.N(2500, 150_000), func(t *rapid.T) {
		forks := drawCustomForks(t)
		vf := versionForks(forks)
		cfg := customConfig(forks, rapid.Int64Range(2, 1<<40).Draw(t, "chainid"))
		// fields that must not matter
		if rapid.Bool().Draw(t, "eips") {
			cfg.EIP155Block = big.NewInt(rapid.Int64Range(0, 50).Draw(t, "eip155"))
			cfg.EIP158Block = cfg.EIP155Block
			cfg.ByzantiumBlock = big.NewInt(rapid.Int64Range(0, 50).Draw(t, "byz"))
		}
		height, isBoundary := drawHeight(t, vf)
		want := RefVersion(vf, height)
		got := cfg.GetBlockVersion(new(big.Int).SetUint64(height))
		if int(got) != want {
			t.Fatalf("GetBlockVersion(%d) with forks %v = %d, reference %d", height, forks, got, want)
		}

		// a header with arbitrary (also non-PoW-valid) contents: hashes per version
		c, _, _ := drawHeaderCase(t)
		if strings.HasPrefix(c.Difficulty, "-") {
			c.Difficulty = c.Difficulty[1:]
		}
		c.Nonce = hx(drawBytes(t, 8, "nonce"))
		c.MixDigest = hx(drawBytes(t, 32, "mix"))
		c.Number = height
		rh := c.ref()
		seen := map[string]int{}
		for v := 1; v <= 4; v++ {
			th := toTypes(rh, 0)
			ret := th.SetVersion(byte(v))
			wantHash := rh.BlockHash(v)
			if int(th.Version) != v || !bytes.Equal(ret[:], wantHash) {
				t.Fatalf("Header.SetVersion(%d) returned %x (version now %d), reference H_v(rlp(header)) = %x\ncase=%s", v, ret, th.Version, wantHash, c.json())
			}
			if h := th.Hash(); h != ret {
				t.Fatalf("Header.Hash() after SetVersion(%d) differs from the returned hash", v)
			}
			if h := th.HashNoNonce(); !bytes.Equal(h[:], rh.SealFreeHash(v)) {
				t.Fatalf("HashNoNonce under version %d = %x, reference %x\ncase=%s", v, h, rh.SealFreeHash(v), c.json())
			}
			if prev, dup := seen[string(wantHash)]; dup {
				t.Fatalf("harness error: versions %d and %d give the same block hash", prev, v)
			}
			seen[string(wantHash)] = v
			ev.Label("hash:version:" + strconv.Itoa(v))
		}
		// Block.SetVersion: the hash cache follows the version
		blk := types.NewBlockWithHeader(toTypes(rh, got))
		if h := blk.Hash(); !bytes.Equal(h[:], rh.BlockHash(want)) {
			t.Fatalf("Block.Hash() under version %d differs from the reference", want)
		}
		other := params.HeaderVersion(want%4 + 1)
		ret := blk.SetVersion(other)
		if !bytes.Equal(ret[:], rh.BlockHash(int(other))) || blk.Hash() != ret || blk.Version() != other {
			t.Fatalf("Block.SetVersion(%d): returned %x cached %x version %d, reference %x", other, ret, blk.Hash(), blk.Version(), rh.BlockHash(int(other)))
		}
		// SetVersionConfig derives the version from the height
		blk2 := types.NewBlockWithHeader(toTypes(rh, 0))
		blk2.SetVersionConfig(cfg)
		if int(blk2.Version()) != want {
			t.Fatalf("Block.SetVersionConfig gave version %d at height %d, reference %d", blk2.Version(), height, want)
		}
		lbls := []string{"schedule:custom", "setversion", "custom-version:" + strconv.Itoa(want)}
		if isBoundary {
			lbls = append(lbls, "fork-boundary-height")
		}
		keys := make([]int, 0, len(forks))
		for k := range forks {
			keys = append(keys, k)
		}
		sort.Ints(keys)
		canon := []byte(fmt.Sprintf("custom:%d:", height))
		for _, k := range keys {
			canon = append(canon, []byte(fmt.Sprintf("%d=%d,", k, forks[k]))...)
		}
		ev.Case(isBoundary, canon, lbls...)
	})
}

// ---------------- corpus, replay, fuzz ----------------

func loadCase(path string) (*sealCase, error) {
	b, err := os.ReadFile(path)
	if err != nil {
		return nil, err
	}
	var c sealCase
	if err := json.Unmarshal(b, &c); err != nil {
		return nil, err
	}
	return &c, nil
}

func TestCorpusReplay(t *testing.T) {
	dir := os.Getenv("VERIF_CORPUS")
	ents, _ := os.ReadDir(dir)
	for _, e := range ents {
		if !strings.HasSuffix(e.Name(), ".json") {
			continue
		}
		c, err := loadCase(dir + "/" + e.Name())
		if err != nil {
			t.Errorf("corpus file %s: %v", e.Name(), err)
			continue
		}
		info := checkSeal(func(f string, a ...interface{}) { t.Errorf(e.Name()+": "+f, a...) }, c)
		rh := c.ref()
		ev.Case(true, append([]byte("corpus:"), rh.FullEncoding()...), "corpus", "corpus:"+info.verdict.Reason)
	}
}

func TestReplay(t *testing.T) {
	p := ev.ReplayPath()
	if p == "" {
		t.Skip("no VERIF_REPLAY")
	}
	c, err := loadCase(p)
	if err != nil {
		t.Fatal(err)
	}
	if c.ParentHash == "" { // not a seal case (e.g. a schedule case written by SaveCase): re-run the enumerations
		TestBuiltinSchedules(t)
		return
	}
	checkSeal(func(f string, a ...interface{}) { t.Errorf(f, a...) }, c)
}

func fuzzForks(sel byte) map[string]int64 {
	switch sel % 4 {
	case 0:
		return map[string]int64{}
	case 1:
		return map[string]int64{"5": 0}
	case 2:
		return map[string]int64{"5": 0, "8": 0}
	}
	return map[string]int64{"5": 0, "8": 0, "9": 0}
}

func caseFromHeader(sel byte, th *types.Header) *sealCase {
	eng := "test"
	if sel&4 != 0 {
		eng = "nodag"
	}
	return &sealCase{
		Schedule: "custom", Forks: fuzzForks(sel), ChainID: 1414, Engine: eng,
		ParentHash: hx(th.ParentHash[:]), UncleHash: hx(th.UncleHash[:]), Coinbase: hx(th.Coinbase[:]), Root: hx(th.Root[:]),
		TxHash: hx(th.TxHash[:]), ReceiptHash: hx(th.ReceiptHash[:]), Bloom: hx(th.Bloom[:]), Difficulty: th.Difficulty.String(),
		Number: th.Number.Uint64(), GasLimit: th.GasLimit, GasUsed: th.GasUsed, Time: th.Time.String(), Extra: hx(th.Extra),
		MixDigest: hx(th.MixDigest[:]), Nonce: hx(th.Nonce[:]),
	}
}
