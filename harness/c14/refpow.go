// Independent reference for C14: seal-free / full header encodings (refrlp),
// the per-version hash functions (keccak-256 and argon2id called directly from
// golang.org/x/crypto), the ethash "hashimoto" function in the code's test-mode
// sizes written from the Ethash specification, the acceptance predicate and the
// fork-schedule -> version rule.
//
// This file must not import anything from gitlab.com/aquachain/aquachain.
package c14

import (
	"encoding/binary"
	"math/big"
	"sync"

	"golang.org/x/crypto/argon2"
	"golang.org/x/crypto/sha3"
	"verifharness/ref/refrlp"
)

// RefHeader holds the 15 serialised header fields as plain values.
type RefHeader struct {
	ParentHash  [32]byte
	UncleHash   [32]byte
	Coinbase    [20]byte
	Root        [32]byte
	TxHash      [32]byte
	ReceiptHash [32]byte
	Bloom       [256]byte
	Difficulty  *big.Int
	Number      *big.Int
	GasLimit    uint64
	GasUsed     uint64
	Time        *big.Int
	Extra       []byte
	MixDigest   [32]byte
	Nonce       [8]byte
}

func (h *RefHeader) sealFreeItems() []refrlp.Item {
	return []refrlp.Item{
		refrlp.B(h.ParentHash[:]), refrlp.B(h.UncleHash[:]), refrlp.B(h.Coinbase[:]), refrlp.B(h.Root[:]),
		refrlp.B(h.TxHash[:]), refrlp.B(h.ReceiptHash[:]), refrlp.B(h.Bloom[:]), refrlp.Big(h.Difficulty), refrlp.Big(h.Number),
		refrlp.U(h.GasLimit), refrlp.U(h.GasUsed), refrlp.Big(h.Time), refrlp.B(h.Extra),
	}
}

// SealFreeEncoding is RLP of the 13 fields that do not belong to the seal.
func (h *RefHeader) SealFreeEncoding() []byte { return refrlp.Encode(refrlp.L(h.sealFreeItems()...)) }

// FullEncoding is RLP of all 15 serialised fields (the version is never serialised).
func (h *RefHeader) FullEncoding() []byte {
	items := append(h.sealFreeItems(), refrlp.B(h.MixDigest[:]), refrlp.B(h.Nonce[:]))
	return refrlp.Encode(refrlp.L(items...))
}

func keccak256(b ...[]byte) []byte {
	d := sha3.NewLegacyKeccak256()
	for _, x := range b {
		d.Write(x)
	}
	return d.Sum(nil)
}

func keccak512(b ...[]byte) []byte {
	d := sha3.NewLegacyKeccak512()
	for _, x := range b {
		d.Write(x)
	}
	return d.Sum(nil)
}

// argonMemKiB is the property statement's table: version -> argon2id memory.
var argonMemKiB = map[int]uint32{2: 1, 3: 16, 4: 32}

// hashV is H_version over a byte string: keccak-256 for version 1, argon2id
// (time 1, 1 lane, no salt, 32-byte tag) with 1 / 16 / 32 KiB for 2 / 3 / 4.
func hashV(version int, data []byte) []byte {
	if version == 1 {
		return keccak256(data)
	}
	mem, ok := argonMemKiB[version]
	if !ok {
		panic("reference: unknown version")
	}
	return argon2.IDKey(data, nil, 1, mem, 1, 32)
}

// SealFreeHash: the deployed inner rule (taken as given, see DESIGN C14):
// keccak-256 of the seal-free encoding for versions 1, 2 and 4, argon2id(16 KiB)
// of it for version 3.
func (h *RefHeader) SealFreeHash(version int) []byte {
	enc := h.SealFreeEncoding()
	if version == 3 {
		return hashV(3, enc)
	}
	return keccak256(enc)
}

// BlockHash is H_version(rlp(full header)).
func (h *RefHeader) BlockHash(version int) []byte { return hashV(version, h.FullEncoding()) }

// nonceLE: the header carries the nonce as 8 big-endian bytes; the work seed
// appends the same integer little-endian, i.e. the header bytes reversed.
func nonceLE(n [8]byte) []byte {
	out := make([]byte, 8)
	for i := 0; i < 8; i++ {
		out[i] = n[7-i]
	}
	return out
}

// Pow returns (expected mix digest, work hash) for the header under version.
// Version 1 is ethash in the code's test mode (1 KiB cache, 32 KiB dataset).
func (h *RefHeader) Pow(version int) (mix, result []byte) {
	sf := h.SealFreeHash(version)
	if version == 1 {
		return refHashimoto(h.Number.Uint64()/30000, sf, binary.BigEndian.Uint64(h.Nonce[:]))
	}
	seed := append(append([]byte{}, sf...), nonceLE(h.Nonce)...)
	return make([]byte, 32), hashV(version, seed)
}

var two256 = new(big.Int).Lsh(big.NewInt(1), 256)

// Target is floor(2^256 / d) for d > 0.
func Target(d *big.Int) *big.Int { return new(big.Int).Quo(two256, d) }

// Verdict of the reference.
type Verdict struct {
	Accept  bool
	Reason  string // "ok" | "difficulty" | "mix" | "pow"
	Mix     []byte
	Result  []byte
	PowOK   bool // result <= target (meaningful when d > 0)
	MixOK   bool
	Target  *big.Int
	RelNear bool // target/2 < result <= 2*target
}

// Judge evaluates the acceptance formula of the property statement.
func (h *RefHeader) Judge(version int) Verdict {
	if h.Difficulty == nil || h.Difficulty.Sign() <= 0 {
		return Verdict{Reason: "difficulty"}
	}
	mix, res := h.Pow(version)
	v := Verdict{Mix: mix, Result: res, Target: Target(h.Difficulty)}
	r := new(big.Int).SetBytes(res)
	v.PowOK = r.Cmp(v.Target) <= 0
	v.MixOK = string(mix) == string(h.MixDigest[:])
	r2 := new(big.Int).Lsh(r, 1)
	v.RelNear = r2.Cmp(v.Target) > 0 && r.Cmp(new(big.Int).Lsh(v.Target, 1)) <= 0
	switch {
	case !v.MixOK:
		v.Reason = "mix"
	case !v.PowOK:
		v.Reason = "pow"
	default:
		v.Reason, v.Accept = "ok", true
	}
	return v
}

// RefVersion derives the header version from a fork schedule: the highest
// activated of HF5 (argon2id 1 KiB), HF8 (16 KiB), HF9 (32 KiB); ethash before.
// forks maps fork number -> activation height (absent = never).
func RefVersion(forks map[int]int64, height uint64) int {
	active := func(hf int) bool {
		at, ok := forks[hf]
		return ok && at >= 0 && uint64(at) <= height
	}
	switch {
	case active(9):
		return 4
	case active(8):
		return 3
	case active(5):
		return 2
	}
	return 1
}

// ---------------- ethash, test-mode sizes, from the specification ----------------

const (
	refCacheBytes   = 1024      // test mode
	refDatasetBytes = 32 * 1024 // test mode
	fnvPrime        = 0x01000193
)

func fnv(a, b uint32) uint32 { return a*fnvPrime ^ b }

func words(b []byte) []uint32 {
	w := make([]uint32, len(b)/4)
	for i := range w {
		w[i] = binary.LittleEndian.Uint32(b[i*4:])
	}
	return w
}

func unwords(w []uint32) []byte {
	b := make([]byte, len(w)*4)
	for i, x := range w {
		binary.LittleEndian.PutUint32(b[i*4:], x)
	}
	return b
}

type refEpoch struct {
	cache [][]uint32 // rows of 16 words
	items [][]uint32 // full dataset, 64-byte items
}

var (
	refEpochMu sync.Mutex
	refEpochs  = map[uint64]*refEpoch{}
)

func refSeed(epoch uint64) []byte {
	seed := make([]byte, 32)
	for i := uint64(0); i < epoch; i++ {
		seed = keccak256(seed)
	}
	return seed
}

func refMakeCache(seed []byte) [][]uint32 {
	n := refCacheBytes / 64
	o := make([][]byte, n)
	o[0] = keccak512(seed)
	for i := 1; i < n; i++ {
		o[i] = keccak512(o[i-1])
	}
	for r := 0; r < 3; r++ {
		for i := 0; i < n; i++ {
			v := int(binary.LittleEndian.Uint32(o[i]) % uint32(n))
			x := make([]byte, 64)
			a, b := o[(i-1+n)%n], o[v]
			for k := range x {
				x[k] = a[k] ^ b[k]
			}
			o[i] = keccak512(x)
		}
	}
	rows := make([][]uint32, n)
	for i := range o {
		rows[i] = words(o[i])
	}
	return rows
}

func refDatasetItem(cache [][]uint32, i uint32) []uint32 {
	n := uint32(len(cache))
	mix := append([]uint32{}, cache[i%n]...)
	mix[0] ^= i
	mix = words(keccak512(unwords(mix)))
	for j := uint32(0); j < 256; j++ {
		idx := fnv(i^j, mix[j%16]) % n
		for k := range mix {
			mix[k] = fnv(mix[k], cache[idx][k])
		}
	}
	return words(keccak512(unwords(mix)))
}

func refGetEpoch(epoch uint64) *refEpoch {
	refEpochMu.Lock()
	defer refEpochMu.Unlock()
	if e, ok := refEpochs[epoch]; ok {
		return e
	}
	if len(refEpochs) > 256 {
		refEpochs = map[uint64]*refEpoch{}
	}
	e := &refEpoch{cache: refMakeCache(refSeed(epoch))}
	e.items = make([][]uint32, refDatasetBytes/64)
	for i := range e.items {
		e.items[i] = refDatasetItem(e.cache, uint32(i))
	}
	refEpochs[epoch] = e
	return e
}

// refHashimoto returns (mix digest, result) for the seal-free hash and nonce.
func refHashimoto(epoch uint64, headerHash []byte, nonce uint64) ([]byte, []byte) {
	e := refGetEpoch(epoch)
	nb := make([]byte, 8)
	binary.LittleEndian.PutUint64(nb, nonce)
	sBytes := keccak512(headerHash, nb)
	s := words(sBytes)
	const w = 32
	mix := make([]uint32, w)
	for i := range mix {
		mix[i] = s[i%16]
	}
	pages := uint32(refDatasetBytes / 128)
	for i := uint32(0); i < 64; i++ {
		p := fnv(i^s[0], mix[i%w]) % pages * 2
		for k := 0; k < 16; k++ {
			mix[k] = fnv(mix[k], e.items[p][k])
			mix[16+k] = fnv(mix[16+k], e.items[p+1][k])
		}
	}
	cmix := make([]uint32, 8)
	for i := 0; i < w; i += 4 {
		cmix[i/4] = fnv(fnv(fnv(mix[i], mix[i+1]), mix[i+2]), mix[i+3])
	}
	digest := unwords(cmix)
	return digest, keccak256(sBytes, digest)
}
