package c14

import (
	"bytes"
	"context"
	"fmt"
	"math/big"
	"os"
	"strconv"
	"testing"
	"time"

	"gitlab.com/aquachain/aquachain/aquadb"
	"gitlab.com/aquachain/aquachain/common"
	"gitlab.com/aquachain/aquachain/consensus/aquahash"
	"gitlab.com/aquachain/aquachain/core"
	"gitlab.com/aquachain/aquachain/core/types"
	"gitlab.com/aquachain/aquachain/core/vm"
	"gitlab.com/aquachain/aquachain/crypto"
	"gitlab.com/aquachain/aquachain/rlp"
	"pgregory.net/rapid"
	"verifharness/ev"
)

// ---------------- (c) the sealer: every returned seal passes the check ----------------

type sealConfig struct {
	name    string
	forks   map[int]int64
	crosses bool
}

// Only schedules on which the difficulty rule leaves a sealable difficulty: with
// no HF1/2/3/6/7 and a non-mainnet chain id the early 1/2048 rule applies and
// has no floor, so a genesis difficulty of a few hundred stays there. A fork
// block of HF5 or HF8 resets the difficulty to 46,039,386 (not sealable here),
// so version changes are crossed through HF9 only.
var sealConfigs = []sealConfig{
	{"v1", map[int]int64{}, false},
	{"v2", map[int]int64{5: 0}, false},
	{"v3", map[int]int64{5: 0, 8: 0}, false},
	{"v4", map[int]int64{5: 0, 8: 0, 9: 0}, false},
	{"v3->v4@2", map[int]int64{5: 0, 8: 0, 9: 2}, true},
	{"v2->v4@2", map[int]int64{5: 0, 9: 2}, true},
}

var (
	sealKey, _ = crypto.HexToBtcec("b71c71a67e1177ad4e901695e1b4b9ee17ae16c6668d313eac2f96dbcda3f291")
	sealAddr   = crypto.PubkeyToAddress(sealKey.PubKey())
)

func rlpRoundTrip(b *types.Block) (*types.Block, error) {
	enc, err := rlp.EncodeToBytes(b)
	if err != nil {
		return nil, err
	}
	var out types.Block
	if err := rlp.DecodeBytes(enc, &out); err != nil {
		return nil, err
	}
	return &out, nil
}

// keyStaleVersion: Seal computes the seal-free hash before it applies the
// schedule's version to its header copy (see FINDINGS.md).
const keyStaleVersion = "seal-stale-input-version"

// sealWithTimeout runs Seal; a sealer that does not return is inconclusive, not a violation.
func sealWithTimeout(t interface {
	Skip(...interface{})
}, eng *aquahash.Aquahash, chain stubChain, b *types.Block) (*types.Block, error) {
	type res struct {
		b   *types.Block
		err error
	}
	stop := make(chan struct{})
	done := make(chan res, 1)
	go func() {
		b, err := eng.Seal(chain, b, stop)
		done <- res{b, err}
	}()
	select {
	case r := <-done:
		return r.b, r.err
	case <-time.After(60 * time.Second):
		close(stop)
		<-done
		ev.Label("seal:timeout")
		t.Skip("sealer did not return within 60 s")
	}
	return nil, nil
}

// TestKnownSealStaleVersion is the fixed witness of the listed finding: a block
// whose header does not carry the schedule's version yet (as the fake-PoW path
// of Seal explicitly supports) at a version-3 height.
func TestKnownSealStaleVersion(t *testing.T) {
	engines()
	forks := map[int]int64{5: 0, 8: 0}
	cfg := customConfig(forks, 1415)
	h := &types.Header{Number: big.NewInt(5), Difficulty: big.NewInt(16), Time: big.NewInt(1_500_000_240), Extra: []byte("c14 witness"), GasLimit: 8_000_000}
	eng := newTestEngine()
	eng.SetThreads(1)
	b, err := sealWithTimeout(t, eng, stubChain{cfg}, types.NewBlockWithHeader(h))
	if err != nil || b == nil {
		t.Fatalf("Seal: block=%v err=%v", b, err)
	}
	sh := b.Header()
	verdict := fromTypes(sh).Judge(3)
	verr := eng.VerifySeal(stubChain{cfg}, sh)
	ev.Case(true, []byte("witness:"+keyStaleVersion), "witness")
	if verdict.Accept && verr == nil && sh.Version == 3 {
		return // repaired
	}
	if ev.Known(keyStaleVersion) {
		ev.KnownFinding(keyStaleVersion)
		return
	}
	t.Fatalf("Seal on a version-3 height with an input header that carries no version returned a block (version %d, nonce %x) that the reference refuses (%s) and VerifySeal answers %v", sh.Version, sh.Nonce, verdict.Reason, verr)
}

// keyUncleVersion: a block handed out by the chain (GetBlock, after InsertChain)
// stamps its uncles with the including block's version, so the hash of an uncle
// from before a version fork is computed with the wrong algorithm (FINDINGS.md).
const keyUncleVersion = "stored-uncle-hashed-with-including-blocks-version"

// checkStoredUncle: the uncle header handed out with a stored block must hash,
// as it stands, to H_v(rlp(uncle)) with v the version of the uncle's own height.
func checkStoredUncle(stored *types.Block, vforks map[int]int64, uncleNumber uint64) string {
	us := stored.Uncles()
	if len(us) != 1 || us[0].Number.Uint64() != uncleNumber {
		return fmt.Sprintf("stored block #%d lost its uncle #%d", stored.NumberU64(), uncleNumber)
	}
	want := RefVersion(vforks, uncleNumber)
	wantHash := fromTypes(us[0]).BlockHash(want)
	if us[0].Version == 0 {
		return fmt.Sprintf("stored block #%d: uncle #%d carries no version", stored.NumberU64(), uncleNumber)
	}
	if got := us[0].Hash(); int(us[0].Version) != want || !bytes.Equal(got[:], wantHash) {
		return fmt.Sprintf("stored block #%d (version %d): uncle #%d is handed out with version %d and hashes to %x; by its own height it is version %d with hash %x",
			stored.NumberU64(), stored.Version(), uncleNumber, us[0].Version, got, want, wantHash)
	}
	return ""
}

// TestKnownUncleVersion is the fixed witness: block 2 (version 4, HF9 at 2)
// includes a sealed uncle of height 1 (version 3); the import succeeds (the
// uncle's seal is verified under version 3) and the block is read back.
func TestKnownUncleVersion(t *testing.T) {
	engines()
	forks := map[int]int64{5: 0, 8: 0, 9: 2}
	cfg := customConfig(forks, 1415)
	genesis := &core.Genesis{Config: cfg, GasLimit: 8_000_000, Difficulty: big.NewInt(4), Timestamp: 1_500_000_000}
	bdb, vdb := aquadb.NewMemDatabase(), aquadb.NewMemDatabase()
	gblock := genesis.MustCommit(bdb)
	genesis.MustCommit(vdb)
	eng := newTestEngine()
	eng.SetThreads(1)
	mk := func(parent *types.Block, extra string, uncles ...*types.Header) *types.Block {
		blocks, _ := core.GenerateChain(context.Background(), cfg, parent, aquahash.NewFaker(), bdb, 1, func(_ int, b *core.BlockGen) {
			b.SetExtra([]byte(extra))
			for _, u := range uncles {
				b.AddUncle(types.CopyHeader(u))
			}
		})
		s, err := sealWithTimeout(t, eng, stubChain{cfg}, blocks[0])
		if err != nil || s == nil {
			t.Fatalf("Seal: %v", err)
		}
		return s
	}
	b1 := mk(gblock, "one")
	u1 := mk(gblock, "uncle")
	b2 := mk(b1, "two", u1.Header())
	vchain, err := core.NewBlockChain(context.Background(), vdb, &core.CacheConfig{Disabled: true}, cfg, newTestEngine(), vm.Config{})
	if err != nil {
		t.Fatal(err)
	}
	defer vchain.Stop()
	d1, _ := rlpRoundTrip(b1)
	d2, _ := rlpRoundTrip(b2)
	if _, err := vchain.InsertChain(types.Blocks{d1, d2}); err != nil {
		t.Fatalf("InsertChain refused a version-4 block with a sealed version-3 uncle: %v", err)
	}
	ev.Case(true, []byte("witness:"+keyUncleVersion), "witness")
	msg := checkStoredUncle(vchain.GetBlockByNumber(2), versionForks(forks), 1)
	if msg == "" {
		return // repaired
	}
	if ev.Known(keyUncleVersion) {
		ev.KnownFinding(keyUncleVersion)
		return
	}
	t.Fatalf("%s", msg)
}

func TestSealer(t *testing.T) {
	ev.Check(t, ev.N(120, 2400), func(t *rapid.T) {
		sc := rapid.SampledFrom(sealConfigs).Draw(t, "config")
		threads := rapid.SampledFrom([]int{1, 2, 4, 16}).Draw(t, "threads")
		diff := rapid.Int64Range(2, 240).Draw(t, "difficulty")
		nblocks := rapid.IntRange(1, 3).Draw(t, "blocks")
		if sc.crosses && nblocks < 2 {
			nblocks = 2
		}
		verifierEngine := rapid.SampledFrom([]string{"test", "nodag"}).Draw(t, "verifier")
		if sc.name == "v1" {
			verifierEngine = "test"
		}
		cfg := customConfig(sc.forks, 1415)
		vforks := versionForks(sc.forks)
		genesis := &core.Genesis{Config: cfg, GasLimit: 8_000_000, Difficulty: big.NewInt(diff), Timestamp: 1_500_000_000,
			Alloc: core.GenesisAlloc{sealAddr: {Balance: new(big.Int).Lsh(big.NewInt(1), 80)}}}
		engines()
		bdb, vdb := aquadb.NewMemDatabase(), aquadb.NewMemDatabase()
		gblock := genesis.MustCommit(bdb)
		genesis.MustCommit(vdb)
		sealer := newTestEngine()
		sealer.SetThreads(threads)
		var veng *aquahash.Aquahash
		if verifierEngine == "test" {
			veng = newTestEngine()
		} else {
			veng = aquahash.New(&aquahash.Config{StartVersion: 2})
		}
		vchain, err := core.NewBlockChain(context.Background(), vdb, &core.CacheConfig{Disabled: true}, cfg, veng, vm.Config{})
		if err != nil {
			t.Fatalf("verifier chain: %v", err)
		}
		defer vchain.Stop()

		// build one unsealed block on parent with the node's own block builder
		build := func(parent *types.Block, uncles []*types.Header, mark byte) *types.Block {
			offset := rapid.Int64Range(-230, 900).Draw(t, "timeoffset")
			extra := append(rapid.SliceOfN(rapid.Byte(), 0, 31).Draw(t, "extra"), mark)
			coinbase := common.BytesToAddress(rapid.SliceOfN(rapid.Byte(), 20, 20).Draw(t, "coinbase"))
			ntx := rapid.IntRange(0, 2).Draw(t, "ntx")
			blocks, _ := core.GenerateChain(context.Background(), cfg, parent, aquahash.NewFaker(), bdb, 1, func(_ int, b *core.BlockGen) {
				b.SetCoinbase(coinbase)
				b.SetExtra(extra)
				if offset != 0 {
					b.OffsetTime(offset)
				}
				for k := 0; k < ntx; k++ {
					tx, err := types.SignTx(types.NewTransaction(b.TxNonce(sealAddr), common.Address{0xaa, byte(k)}, big.NewInt(int64(1000+k)), 21000, big.NewInt(1), nil), types.HomesteadSigner{}, sealKey)
					if err != nil {
						panic(err)
					}
					b.AddTx(tx)
				}
				for _, u := range uncles {
					b.AddUncle(types.CopyHeader(u))
				}
			})
			return blocks[0]
		}
		// seal it with the real engine and judge the result
		seal := func(unsealed *types.Block) *types.Block {
			number := unsealed.NumberU64()
			version := RefVersion(vforks, number)
			in := unsealed
			inputMode := rapid.SampledFrom([]string{"schedule", "schedule", "schedule", "unset", "other"}).Draw(t, "inputVersion")
			if inputMode != "schedule" {
				iv := 0
				if inputMode == "other" {
					iv = version%4 + 1
				}
				staleShape := (iv == 3) != (version == 3)
				if staleShape && ev.Known(keyStaleVersion) {
					ev.Excluded(keyStaleVersion)
					inputMode = "schedule"
				} else {
					h := unsealed.Header()
					h.Version = types.HeaderVersion(iv)
					in = unsealed.WithSeal(h)
				}
			}
			b, err := sealWithTimeout(t, sealer, stubChain{cfg}, in)
			if err != nil || b == nil {
				t.Fatalf("Seal(threads=%d, version=%d, difficulty=%d) returned block=%v err=%v", threads, version, diff, b, err)
			}
			sh := b.Header()
			rh := fromTypes(sh)
			uh := fromTypes(unsealed.Header())
			descr := fmt.Sprintf("config=%s threads=%d number=%d version=%d input-version=%s difficulty=%v nonce=%x mix=%x", sc.name, threads, number, version, inputMode, sh.Difficulty, sh.Nonce, sh.MixDigest)
			if int(sh.Version) != version {
				t.Fatalf("sealed header carries version %d, schedule says %d (%s)", sh.Version, version, descr)
			}
			if !bytes.Equal(rh.SealFreeEncoding(), uh.SealFreeEncoding()) {
				t.Fatalf("Seal changed seal-free header fields (%s)", descr)
			}
			verdict := rh.Judge(version)
			if !verdict.Accept {
				t.Fatalf("Seal returned a block the reference refuses: %s; target=%v result=%x expected-mix=%x (%s)", verdict.Reason, verdict.Target, verdict.Result, verdict.Mix, descr)
			}
			if err := sealer.VerifySeal(stubChain{cfg}, sh); err != nil {
				t.Fatalf("VerifySeal refuses the sealer's own block: %v (%s)", err, descr)
			}
			if err := veng.VerifySeal(stubChain{cfg}, sh); err != nil {
				t.Fatalf("VerifySeal (%s engine) refuses the sealer's block: %v (%s)", verifierEngine, err, descr)
			}
			if h := b.Hash(); !bytes.Equal(h[:], rh.BlockHash(version)) {
				t.Fatalf("sealed block hash %x is not H_%d(rlp(header)) = %x (%s)", h, version, rh.BlockHash(version), descr)
			}
			if len(b.Transactions()) != len(unsealed.Transactions()) || b.TxHash() != unsealed.TxHash() || len(b.Uncles()) != len(unsealed.Uncles()) {
				t.Fatalf("Seal changed the block body (%s)", descr)
			}
			canon := append([]byte("sealed:"+strconv.Itoa(version)+":"), rh.FullEncoding()...)
			ev.Case(true, canon, "threads:"+strconv.Itoa(threads), "seal:version:"+strconv.Itoa(version), "seal:config:"+sc.name, "seal:input-version:"+inputMode)
			return b
		}

		var sealed []*types.Block
		uncleAt := map[uint64]uint64{} // including block number -> uncle number
		parent := gblock
		for i := 0; i < nblocks; i++ {
			var uncles []*types.Header
			if i >= 1 && rapid.IntRange(0, 2).Draw(t, "uncle") > 0 {
				// a sealed sibling of the parent, child of the grandparent
				grand := gblock
				if i >= 2 {
					grand = sealed[i-2]
				}
				sib := seal(build(grand, nil, 'U'))
				if sib.Hash() != parent.Hash() {
					uncles = []*types.Header{sib.Header()}
					uncleAt[uint64(i+1)] = sib.NumberU64()
					ev.Label("seal:uncle")
					if RefVersion(vforks, sib.NumberU64()) != RefVersion(vforks, uint64(i+1)) {
						ev.Label("seal:uncle-of-older-version")
					}
				}
			}
			b := seal(build(parent, uncles, 'B'))
			sealed = append(sealed, b)
			parent = b
		}

		// ---- a full import on a node with a non-fake engine, from the wire form ----
		fresh := func(upto int) types.Blocks {
			var out types.Blocks
			for _, b := range sealed[:upto] {
				d, err := rlpRoundTrip(b)
				if err != nil {
					t.Fatalf("rlp round trip of a sealed block: %v", err)
				}
				if d.Version() != 0 {
					t.Fatalf("harness error: decoded block carries a version")
				}
				out = append(out, d)
			}
			return out
		}
		setVersions := func(bs types.Blocks) {
			if len(bs) >= 2 {
				return // InsertChain derives the versions of a batch itself
			}
			for _, b := range bs {
				b.SetVersion(cfg.GetBlockVersion(b.Number()))
			}
		}
		// tampered copy of the last block: a seal the reference refuses
		last := sealed[len(sealed)-1]
		lastVersion := RefVersion(vforks, last.NumberU64())
		th := last.Header()
		tamper := rapid.SampledFrom([]string{"nonce", "mix"}).Draw(t, "tamper")
		if tamper == "mix" {
			bit := rapid.IntRange(0, 255).Draw(t, "mixbit")
			th.MixDigest[bit/8] ^= 1 << (bit % 8)
		} else {
			found := false
			for i := uint64(1); i <= 256; i++ {
				th.Nonce = types.EncodeNonce(last.Nonce() + i)
				if !fromTypes(th).Judge(lastVersion).Accept {
					found = true
					break
				}
			}
			if !found {
				tamper = "none"
			}
		}
		if tamper != "none" {
			if fromTypes(th).Judge(lastVersion).Accept {
				t.Fatalf("harness error: tampered seal is valid")
			}
			chain := fresh(len(sealed))
			chain[len(chain)-1] = chain[len(chain)-1].WithSeal(func() *types.Header { h := *th; h.Version = 0; return &h }())
			setVersions(chain)
			var idx int
			var ierr error
			quietStdout(func() { idx, ierr = vchain.InsertChain(chain) })
			if ierr == nil {
				t.Fatalf("InsertChain on a non-fake engine accepted a block whose seal (%s tampered) the reference refuses: config=%s number=%d nonce=%x mix=%x", tamper, sc.name, th.Number, th.Nonce, th.MixDigest)
			}
			if idx != len(chain)-1 {
				t.Fatalf("InsertChain failed at index %d (%v), expected the tampered block at %d", idx, ierr, len(chain)-1)
			}
			ev.Label("insert:tampered-rejected", "insert:tamper:"+tamper)
		}
		have := int(vchain.CurrentBlock().NumberU64())
		good := fresh(len(sealed))[have:]
		setVersions(good)
		if idx, err := vchain.InsertChain(good); err != nil {
			t.Fatalf("InsertChain on a non-fake engine refused the sealer's blocks at index %d: %v (config=%s threads=%d uncles=%v)", idx, err, sc.name, threads, uncleAt)
		}
		head := vchain.CurrentBlock()
		if head.Hash() != last.Hash() {
			t.Fatalf("head after import is %x (#%d), expected the last sealed block %x (#%d)", head.Hash(), head.NumberU64(), last.Hash(), last.NumberU64())
		}
		for _, b := range sealed {
			stored := vchain.GetBlockByNumber(b.NumberU64())
			want := RefVersion(vforks, b.NumberU64())
			if stored == nil || int(stored.Version()) != want || !bytes.Equal(stored.Hash().Bytes(), fromTypes(b.Header()).BlockHash(want)) {
				t.Fatalf("stored block #%d: version/hash do not follow the schedule (want version %d)", b.NumberU64(), want)
			}
			hd := vchain.GetHeaderByNumber(b.NumberU64())
			if hd == nil || int(hd.Version) != want {
				t.Fatalf("stored header #%d does not carry version %d", b.NumberU64(), want)
			}
			if un, ok := uncleAt[b.NumberU64()]; ok {
				if msg := checkStoredUncle(stored, vforks, un); msg != "" {
					if RefVersion(vforks, un) != want && ev.Known(keyUncleVersion) {
						ev.Excluded(keyUncleVersion)
					} else {
						t.Fatalf("%s (config=%s)", msg, sc.name)
					}
				}
			}
		}
		ev.Label("insert:accepted")
		if sc.crosses {
			ev.Label("seal:crosses-version-fork")
		}
	})
}

// ---------------- native fuzz target: wire-form header + version selector ----------------

func fuzzSeeds() [][]byte {
	var out [][]byte
	for sel := byte(0); sel < 8; sel++ {
		version := int(sel%4) + 1
		rh := &RefHeader{Difficulty: big.NewInt(3), Number: big.NewInt(int64(sel) * 7), GasLimit: 8_000_000, GasUsed: 21000,
			Time: big.NewInt(1_500_000_240), Extra: []byte("c14")}
		rh.ParentHash[0], rh.Coinbase[19], rh.Bloom[17] = sel, 0x77, 0x20
		first, found, _ := powSearch(rh, version, uint64(sel)<<32, 200)
		if !found {
			continue
		}
		copy(rh.Nonce[:], be8(first))
		if version == 1 {
			mix, _ := rh.Pow(1)
			copy(rh.MixDigest[:], mix)
		}
		out = append(out, append([]byte{sel}, rh.FullEncoding()...))
		rh.Nonce[7] ^= 1
		out = append(out, append([]byte{sel}, rh.FullEncoding()...))
		rh.MixDigest[5] ^= 4
		out = append(out, append([]byte{sel}, rh.FullEncoding()...))
		rh.Difficulty = big.NewInt(0)
		out = append(out, append([]byte{sel}, rh.FullEncoding()...))
	}
	return out
}

func fuzzOne(fail failer, data []byte) (ran bool) {
	if len(data) < 2 || len(data) > 1024 {
		return false
	}
	var th types.Header
	if err := rlp.DecodeBytes(data[1:], &th); err != nil {
		return false
	}
	if !th.Number.IsUint64() || th.Number.Uint64() > maxHeight || th.Difficulty.BitLen() > 600 || th.Time.BitLen() > 600 {
		return false
	}
	c := caseFromHeader(data[0], &th)
	info := checkSeal(fail, c)
	lbl := "reject:" + info.verdict.Reason
	if info.verdict.Accept {
		lbl = "accept"
	}
	ev.Case(true, append([]byte("fuzz:"), data...), "fuzz-seed", lbl)
	return true
}

func FuzzSealRLP(f *testing.F) {
	for _, s := range fuzzSeeds() {
		f.Add(s)
	}
	f.Fuzz(func(t *testing.T, data []byte) {
		fuzzOne(func(f string, a ...interface{}) { t.Fatalf(f, a...) }, data)
	})
}

// TestWriteCorpus (maintenance only, VERIF_C14_WRITE_CORPUS=<dir>) writes the
// fixed regression corpus: per version a valid seal found by the reference,
// its neighbours, wrong mix digests and the degenerate difficulties.
func TestWriteCorpus(t *testing.T) {
	dir := os.Getenv("VERIF_C14_WRITE_CORPUS")
	if dir == "" {
		t.Skip("maintenance helper")
	}
	n := 0
	write := func(c *sealCase, note string) {
		c.Note = note
		n++
		if err := os.WriteFile(fmt.Sprintf("%s/%02d-%s.json", dir, n, note), []byte(c.json()+"\n"), 0o644); err != nil {
			t.Fatal(err)
		}
	}
	zero32, zero8 := make([]byte, 32), make([]byte, 8)
	type pick struct {
		sched  string
		height uint64
	}
	for _, p := range []pick{{"mainnet", 22799}, {"mainnet", 22800}, {"testnet", 4}, {"testnet", 649}, {"testnet", 650}, {"testnet2", 7}, {"testnet2", 8}, {"testnet2", 18}, {"testnet2", 19}, {"mainnet+hf8flag", 3_000_000}, {"all", 30000}} {
		for _, d := range []int64{1, 2, 7, 200} {
			c := &sealCase{Schedule: p.sched, Engine: "test", ParentHash: hx(keccak256([]byte(p.sched))), UncleHash: hx(keccak256(nil)), Coinbase: hx(zero32[:20]),
				Root: hx(keccak256([]byte("root"))), TxHash: hx(keccak256([]byte("tx"))), ReceiptHash: hx(keccak256([]byte("rc"))), Bloom: hx(make([]byte, 256)),
				Difficulty: strconv.FormatInt(d, 10), Number: p.height, GasLimit: 4_700_000, GasUsed: 0, Time: "1522222222", Extra: hx([]byte("corpus")),
				MixDigest: hx(zero32), Nonce: hx(zero8)}
			s := c.schedule()
			version := RefVersion(s.forks, p.height)
			rh := c.ref()
			first, found, steps := powSearch(rh, version, 0x1000, int(40*d)+50)
			if !found {
				t.Fatalf("no nonce found for %v d=%d", p, d)
			}
			setNonce := func(nn uint64) {
				c.Nonce = hx(be8(nn))
				copy(rh.Nonce[:], be8(nn))
				mix := zero32
				if version == 1 {
					mix, _ = rh.Pow(1)
				}
				c.MixDigest = hx(mix)
			}
			tag := fmt.Sprintf("%s-%d-v%d-d%d", p.sched, p.height, version, d)
			setNonce(first)
			write(c, tag+"-valid")
			if steps > 0 {
				setNonce(first - 1)
				write(c, tag+"-prev-nonce")
			}
			if d == 7 {
				setNonce(first)
				m := unhex(c.MixDigest, 32)
				m[31] ^= 1
				c.MixDigest = hx(m)
				write(c, tag+"-mix-flipped")
				setNonce(first)
				for _, bad := range []string{"0", "-1", "-7", "115792089237316195423570985008687907853269984665640564039457584007913129639935", "115792089237316195423570985008687907853269984665640564039457584007913129639936", "115792089237316195423570985008687907853269984665640564039457584007913129639937"} {
					c.Difficulty = bad
					write(c, tag+"-difficulty-"+map[bool]string{true: "neg", false: "n"}[bad[0] == '-']+strconv.Itoa(len(bad)))
				}
			}
		}
	}
}
