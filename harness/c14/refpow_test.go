package c14

import (
	"bytes"
	"encoding/hex"
	"math/big"
	"testing"
)

// The reference is itself checked against published vectors (the ethash test
// vectors that ship with every ethash implementation, Keccak of the empty
// string, and arithmetic identities of the target), so that a defect in the
// reference shows up here and not as a false alarm.
func TestReferenceVectors(t *testing.T) {
	if got := hex.EncodeToString(keccak256(nil)); got != "c5d2460186f7233c927e7db2dcc703c0e500b653ca82273b7bfad8045d85a470" {
		t.Fatalf("keccak256(\"\") = %s", got)
	}
	// ethash, 1 KiB cache / 32 KiB dataset, epoch 0 and 1: first cache rows
	row := func(epoch uint64) string { return hex.EncodeToString(unwords(refGetEpoch(epoch).cache[0])) }
	if got := row(0); got != "7ce2991c951f7bf4c4c1bb119887ee07871eb5339d7b97b8588e85c742de90e5bafd5bbe6ce93a134fb6be9ad3e30db99d9528a2ea7846833f52e9ca119b6b54" {
		t.Fatalf("cache row 0 of epoch 0 = %s", got)
	}
	if got := row(1); got != "1f56855d59cc5a085720899b4377a0198f1abe948d85fe5820dc0e346b7c0931b9cde8e541d751de3b2b3275d0aabfae316209d5879297d8bd99f8a033c9d4df" {
		t.Fatalf("cache row 0 of epoch 1 = %s", got)
	}
	last := hex.EncodeToString(unwords(refGetEpoch(0).cache[15]))
	if last != "845f64fd8324bb85312979dead74f764c9677aab89801ad4f927f1c00f12e28f22422bb44200d1969d9ab377dd6b099dc6dbc3222e9321b2c1e84f8e2f07731c" {
		t.Fatalf("cache row 15 of epoch 0 = %s", last)
	}
	hash, _ := hex.DecodeString("c9149cc0386e689d789a1c2f3d5d169a61a6218ed30e74414dc736e442ef3d1f")
	mix, res := refHashimoto(0, hash, 0)
	if hex.EncodeToString(mix) != "e4073cffaef931d37117cefd9afd27ea0f1cad6a981dd2605c4a1ac97c519800" ||
		hex.EncodeToString(res) != "d3539235ee2e6f8db665c0a72169f55b7f6c605712330b778ec3944f0eb5a557" {
		t.Fatalf("hashimoto vector: mix %x result %x", mix, res)
	}
	// target arithmetic
	if Target(big.NewInt(1)).Cmp(two256) != 0 || Target(big.NewInt(2)).BitLen() != 256 || Target(new(big.Int).Add(two256, big.NewInt(1))).Sign() != 0 {
		t.Fatalf("target arithmetic")
	}
	// nonce byte order: header bytes big-endian, seed little-endian
	if !bytes.Equal(nonceLE([8]byte{1, 2, 3, 4, 5, 6, 7, 8}), []byte{8, 7, 6, 5, 4, 3, 2, 1}) {
		t.Fatalf("nonceLE")
	}
	// the four hash functions are pairwise different functions
	seen := map[string]bool{}
	for v := 1; v <= 4; v++ {
		seen[string(hashV(v, []byte("abc")))] = true
	}
	if len(seen) != 4 {
		t.Fatalf("hashV collides between versions")
	}
	if RefVersion(map[int]int64{5: 5, 8: 8, 9: 19}, 4) != 1 || RefVersion(map[int]int64{5: 5, 8: 8, 9: 19}, 5) != 2 ||
		RefVersion(map[int]int64{5: 5, 8: 8, 9: 19}, 8) != 3 || RefVersion(map[int]int64{5: 5, 8: 8, 9: 19}, 18) != 3 || RefVersion(map[int]int64{5: 5, 8: 8, 9: 19}, 19) != 4 {
		t.Fatalf("RefVersion")
	}
}
