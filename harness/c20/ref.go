// Independent reference for C20: Web3 Secret Storage (v3 and v1) and the
// presale wallet format written from their specifications, plus address
// derivation and signature recovery. Nothing here imports the keystore or
// aquachain's crypto package: Keccak comes from x/crypto/sha3, the KDFs from
// x/crypto, AES from the standard library, curve arithmetic from btcec.
package c20

import (
	"bytes"
	"crypto/aes"
	"crypto/cipher"
	"crypto/sha256"
	"encoding/hex"
	"encoding/json"
	"errors"
	"fmt"
	"regexp"
	"strings"

	"github.com/btcsuite/btcd/btcec/v2"
	btcecdsa "github.com/btcsuite/btcd/btcec/v2/ecdsa"
	"golang.org/x/crypto/pbkdf2"
	"golang.org/x/crypto/scrypt"
	"golang.org/x/crypto/sha3"
)

func keccak(parts ...[]byte) []byte {
	h := sha3.NewLegacyKeccak256()
	for _, p := range parts {
		h.Write(p)
	}
	return h.Sum(nil)
}

// pad32 left-pads a big-endian scalar to 32 bytes.
func pad32(b []byte) []byte {
	if len(b) >= 32 {
		return append([]byte{}, b[len(b)-32:]...)
	}
	out := make([]byte, 32)
	copy(out[32-len(b):], b)
	return out
}

// refAddress derives the account address of a private scalar: the last 20
// bytes of Keccak-256 over the 64-byte uncompressed public key.
func refAddress(scalar []byte) [20]byte {
	_, pub := btcec.PrivKeyFromBytes(pad32(scalar))
	var a [20]byte
	copy(a[:], keccak(pub.SerializeUncompressed()[1:])[12:])
	return a
}

// refRecover recovers the signer address of a 65-byte [R || S || V] signature
// (V in {0,1}) over a 32-byte hash.
func refRecover(hash, sig []byte) ([20]byte, error) {
	var a [20]byte
	if len(sig) != 65 || sig[64] > 1 {
		return a, fmt.Errorf("signature is not 65 bytes R||S||V with V in {0,1}: %x", sig)
	}
	compact := make([]byte, 65)
	compact[0] = 27 + sig[64]
	copy(compact[1:], sig[:64])
	pub, _, err := btcecdsa.RecoverCompact(compact, hash)
	if err != nil {
		return a, err
	}
	copy(a[:], keccak(pub.SerializeUncompressed()[1:])[12:])
	return a, nil
}

// kdfSpec describes a key derivation as the key file names it.
type kdfSpec struct {
	Kind  string // "scrypt" | "pbkdf2"
	N, R  int
	P     int
	C     int
	DKLen int
	Salt  []byte
}

func (k kdfSpec) derive(pass []byte) ([]byte, error) {
	switch k.Kind {
	case "scrypt":
		return scrypt.Key(pass, k.Salt, k.N, k.R, k.P, k.DKLen)
	case "pbkdf2":
		return pbkdf2.Key(pass, k.Salt, k.C, k.DKLen, sha256.New), nil
	}
	return nil, errors.New("ref: unknown kdf " + k.Kind)
}

func (k kdfSpec) paramNodes() []*node {
	if k.Kind == "scrypt" {
		return []*node{num("dklen", k.DKLen), num("n", k.N), num("p", k.P), num("r", k.R), str("salt", hex.EncodeToString(k.Salt))}
	}
	return []*node{num("c", k.C), num("dklen", k.DKLen), str("prf", "hmac-sha256"), str("salt", hex.EncodeToString(k.Salt))}
}

func pkcs7Pad(b []byte) []byte {
	n := aes.BlockSize - len(b)%aes.BlockSize
	return append(append([]byte{}, b...), bytes.Repeat([]byte{byte(n)}, n)...)
}

// buildV3 writes a version-3 key file for the given stored key bytes (32 bytes
// normally; 31 or 30 for the legacy short form), independent of the keystore.
// addr == "" leaves the address field out (as the published vectors do).
func buildV3(stored []byte, pass string, k kdfSpec, iv []byte, addr, id string) (*node, error) {
	dk, err := k.derive([]byte(pass))
	if err != nil {
		return nil, err
	}
	if len(dk) < 32 {
		return nil, errors.New("ref: dklen < 32")
	}
	blk, err := aes.NewCipher(dk[:16])
	if err != nil {
		return nil, err
	}
	ct := make([]byte, len(stored))
	cipher.NewCTR(blk, iv).XORKeyStream(ct, stored)
	mac := keccak(dk[16:32], ct)
	root := &node{obj: true}
	if addr != "" {
		root.kids = append(root.kids, str("address", addr))
	}
	root.kids = append(root.kids,
		&node{key: "crypto", obj: true, kids: []*node{
			str("cipher", "aes-128-ctr"),
			str("ciphertext", hex.EncodeToString(ct)),
			{key: "cipherparams", obj: true, kids: []*node{str("iv", hex.EncodeToString(iv))}},
			str("kdf", k.Kind),
			{key: "kdfparams", obj: true, kids: k.paramNodes()},
			str("mac", hex.EncodeToString(mac)),
		}},
		str("id", id),
		num("version", 3))
	return root, nil
}

// buildV1 writes a version-1 key file: AES-128-CBC under
// keccak(derived[:16])[:16] with PKCS#7 padding, MAC as in v3, version "1".
func buildV1(stored []byte, pass string, k kdfSpec, iv []byte, addr, id string) (*node, error) {
	dk, err := k.derive([]byte(pass))
	if err != nil {
		return nil, err
	}
	if len(dk) < 32 {
		return nil, errors.New("ref: dklen < 32")
	}
	blk, err := aes.NewCipher(keccak(dk[:16])[:16])
	if err != nil {
		return nil, err
	}
	pt := pkcs7Pad(stored)
	ct := make([]byte, len(pt))
	cipher.NewCBCEncrypter(blk, iv).CryptBlocks(ct, pt)
	mac := keccak(dk[16:32], ct)
	root := &node{obj: true}
	if addr != "" {
		root.kids = append(root.kids, str("address", addr))
	}
	root.kids = append(root.kids,
		&node{key: "crypto", obj: true, kids: []*node{
			str("cipher", "aes-128-cbc"),
			str("ciphertext", hex.EncodeToString(ct)),
			{key: "cipherparams", obj: true, kids: []*node{str("iv", hex.EncodeToString(iv))}},
			str("kdf", k.Kind),
			{key: "kdfparams", obj: true, kids: k.paramNodes()},
			str("mac", hex.EncodeToString(mac)),
		}},
		str("id", id),
		str("version", "1"))
	return root, nil
}

// buildPresale writes a presale wallet: encseed = iv || AES-128-CBC(seed) under
// PBKDF2-HMAC-SHA256(pass, salt=pass, 2000 rounds, 16 bytes); the private key
// is keccak(seed).
func buildPresale(seed []byte, pass string, iv []byte) (jsonText []byte, scalar []byte) {
	dk := pbkdf2.Key([]byte(pass), []byte(pass), 2000, 16, sha256.New)
	blk, _ := aes.NewCipher(dk)
	pt := pkcs7Pad(seed)
	ct := make([]byte, len(pt))
	cipher.NewCBCEncrypter(blk, iv).CryptBlocks(ct, pt)
	scalar = keccak(seed)
	a := refAddress(scalar)
	j, _ := json.Marshal(map[string]string{
		"encseed":  hex.EncodeToString(append(append([]byte{}, iv...), ct...)),
		"aquaaddr": hex.EncodeToString(a[:]),
		"email":    "x@example.org",
		"btcaddr":  "1",
	})
	return j, scalar
}

var (
	reHexLower = regexp.MustCompile(`^[0-9a-f]*$`)
	reUUID     = regexp.MustCompile(`^[0-9a-f]{8}-[0-9a-f]{4}-[0-9a-f]{4}-[0-9a-f]{4}-[0-9a-f]{12}$`)
)

// refDecryptStrict decrypts a version-3 scrypt key file the way a strict
// reader of the Web3 Secret Storage definition does and insists on the exact
// layout the definition gives: ciphertext 32 bytes (zero-padded key), iv 16,
// mac 32, lower-case hex, address = address of the key, id = a UUID (checkID;
// not demanded when the file was re-written from an altered file whose id was
// damaged), version 3.
// It is applied to files WRITTEN by the keystore only.
func refDecryptStrict(file []byte, pass string, checkID bool) (scalar []byte, addr [20]byte, err error) {
	dec := json.NewDecoder(bytes.NewReader(file))
	dec.UseNumber()
	var top map[string]interface{}
	if err = dec.Decode(&top); err != nil {
		return nil, addr, err
	}
	want := func(m map[string]interface{}, keys ...string) error {
		if len(m) != len(keys) {
			return fmt.Errorf("ref: object has %d members, want exactly %v", len(m), keys)
		}
		for _, k := range keys {
			if _, ok := m[k]; !ok {
				return fmt.Errorf("ref: member %q missing", k)
			}
		}
		return nil
	}
	if err = want(top, "address", "crypto", "id", "version"); err != nil {
		return nil, addr, err
	}
	if n, ok := top["version"].(json.Number); !ok || n.String() != "3" {
		return nil, addr, fmt.Errorf("ref: version is %v, want the number 3", top["version"])
	}
	id, _ := top["id"].(string)
	if checkID && !reUUID.MatchString(id) {
		return nil, addr, fmt.Errorf("ref: id %q is not a UUID", id)
	}
	cr, ok := top["crypto"].(map[string]interface{})
	if !ok {
		return nil, addr, errors.New("ref: crypto is not an object")
	}
	if err = want(cr, "cipher", "ciphertext", "cipherparams", "kdf", "kdfparams", "mac"); err != nil {
		return nil, addr, err
	}
	if cr["cipher"] != "aes-128-ctr" || cr["kdf"] != "scrypt" {
		return nil, addr, fmt.Errorf("ref: cipher/kdf = %v/%v", cr["cipher"], cr["kdf"])
	}
	cp, ok := cr["cipherparams"].(map[string]interface{})
	if !ok || want(cp, "iv") != nil {
		return nil, addr, errors.New("ref: cipherparams must be {iv}")
	}
	kp, ok := cr["kdfparams"].(map[string]interface{})
	if !ok {
		return nil, addr, errors.New("ref: kdfparams is not an object")
	}
	if err = want(kp, "dklen", "n", "p", "r", "salt"); err != nil {
		return nil, addr, err
	}
	hx := func(v interface{}, n int, what string) ([]byte, error) {
		s, ok := v.(string)
		if !ok || !reHexLower.MatchString(s) {
			return nil, fmt.Errorf("ref: %s is not a lower-case hex string: %v", what, v)
		}
		b, err := hex.DecodeString(s)
		if err != nil || len(b) != n {
			return nil, fmt.Errorf("ref: %s has %d bytes, want %d", what, len(b), n)
		}
		return b, nil
	}
	in := func(v interface{}, what string) (int, error) {
		n, ok := v.(json.Number)
		if !ok {
			return 0, fmt.Errorf("ref: %s is not a number: %v", what, v)
		}
		i, err := n.Int64()
		if err != nil || i <= 0 || i > 1<<30 || strings.ContainsAny(n.String(), ".eE") {
			return 0, fmt.Errorf("ref: %s is not a positive integer: %v", what, n)
		}
		return int(i), nil
	}
	var k kdfSpec
	k.Kind = "scrypt"
	if k.Salt, err = hx(kp["salt"], 32, "salt"); err != nil {
		return nil, addr, err
	}
	if k.DKLen, err = in(kp["dklen"], "dklen"); err != nil {
		return nil, addr, err
	}
	if k.DKLen != 32 {
		return nil, addr, fmt.Errorf("ref: dklen %d, want 32", k.DKLen)
	}
	if k.N, err = in(kp["n"], "n"); err != nil {
		return nil, addr, err
	}
	if k.R, err = in(kp["r"], "r"); err != nil {
		return nil, addr, err
	}
	if k.P, err = in(kp["p"], "p"); err != nil {
		return nil, addr, err
	}
	iv, err := hx(cp["iv"], 16, "iv")
	if err != nil {
		return nil, addr, err
	}
	ct, err := hx(cr["ciphertext"], 32, "ciphertext")
	if err != nil {
		return nil, addr, err
	}
	mac, err := hx(cr["mac"], 32, "mac")
	if err != nil {
		return nil, addr, err
	}
	fileAddr, err := hx(top["address"], 20, "address")
	if err != nil {
		return nil, addr, err
	}
	dk, err := k.derive([]byte(pass))
	if err != nil {
		return nil, addr, err
	}
	if !bytes.Equal(keccak(dk[16:32], ct), mac) {
		return nil, addr, errRefMAC
	}
	blk, _ := aes.NewCipher(dk[:16])
	pt := make([]byte, 32)
	cipher.NewCTR(blk, iv).XORKeyStream(pt, ct)
	addr = refAddress(pt)
	if !bytes.Equal(addr[:], fileAddr) {
		return nil, addr, fmt.Errorf("ref: address field %x is not the address of the stored key %x", fileAddr, addr)
	}
	return pt, addr, nil
}

// hmacEquivalent reports whether two passphrases are the same HMAC-SHA256 key
// (RFC 2104: a key longer than the 64-byte block is replaced by its hash, a
// shorter one is padded with zero bytes). PBKDF2 and scrypt use the passphrase
// only as an HMAC key, so such passphrases are one and the same secret for
// every implementation of the key file format.
func hmacEquivalent(a, b string) bool {
	norm := func(p string) string {
		k := []byte(p)
		if len(k) > 64 {
			h := sha256.Sum256(k)
			k = h[:]
		}
		return string(bytes.TrimRight(k, "\x00"))
	}
	return norm(a) == norm(b)
}

var errRefMAC = errors.New("ref: MAC mismatch (wrong passphrase or not the documented MAC)")

// refDecryptLenient decrypts v3/v1 files as the definition allows on read
// (either KDF, short legacy ciphertext); used to validate the reference itself
// against the published vectors.
func refDecryptLenient(file []byte, pass string) ([]byte, error) {
	var f struct {
		Version interface{} `json:"version"`
		Crypto  struct {
			Cipher       string `json:"cipher"`
			CipherText   string `json:"ciphertext"`
			CipherParams struct {
				IV string `json:"iv"`
			} `json:"cipherparams"`
			KDF       string                 `json:"kdf"`
			KDFParams map[string]interface{} `json:"kdfparams"`
			MAC       string                 `json:"mac"`
		} `json:"crypto"`
	}
	if err := json.Unmarshal(file, &f); err != nil {
		return nil, err
	}
	num := func(k string) int { v, _ := f.Crypto.KDFParams[k].(float64); return int(v) }
	salt, _ := f.Crypto.KDFParams["salt"].(string)
	k := kdfSpec{Kind: f.Crypto.KDF, N: num("n"), R: num("r"), P: num("p"), C: num("c"), DKLen: num("dklen")}
	var err error
	if k.Salt, err = hex.DecodeString(salt); err != nil {
		return nil, err
	}
	iv, err := hex.DecodeString(f.Crypto.CipherParams.IV)
	if err != nil || len(iv) != 16 {
		return nil, errors.New("ref: bad iv")
	}
	ct, err := hex.DecodeString(f.Crypto.CipherText)
	if err != nil {
		return nil, err
	}
	mac, err := hex.DecodeString(f.Crypto.MAC)
	if err != nil {
		return nil, err
	}
	dk, err := k.derive([]byte(pass))
	if err != nil {
		return nil, err
	}
	if len(dk) < 32 || !bytes.Equal(keccak(dk[16:32], ct), mac) {
		return nil, errRefMAC
	}
	if f.Version == "1" {
		if len(ct) == 0 || len(ct)%16 != 0 {
			return nil, errors.New("ref: bad cbc length")
		}
		blk, _ := aes.NewCipher(keccak(dk[:16])[:16])
		pt := make([]byte, len(ct))
		cipher.NewCBCDecrypter(blk, iv).CryptBlocks(pt, ct)
		n := int(pt[len(pt)-1])
		if n == 0 || n > 16 || n > len(pt) {
			return nil, errors.New("ref: bad padding")
		}
		return pad32(pt[:len(pt)-n]), nil
	}
	blk, _ := aes.NewCipher(dk[:16])
	pt := make([]byte, len(ct))
	cipher.NewCTR(blk, iv).XORKeyStream(pt, ct)
	return pad32(pt), nil
}
