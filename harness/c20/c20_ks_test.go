package c20

import (
	"bytes"
	"encoding/hex"
	"fmt"
	"os"
	"path/filepath"
	"testing"

	"gitlab.com/aquachain/aquachain/aqua/accounts"
	"gitlab.com/aquachain/aquachain/aqua/accounts/keystore"
	"pgregory.net/rapid"
	"verifharness/ev"
)

// ---------- KeyStore level ----------

type fataler interface {
	Fatalf(string, ...interface{})
}

// ksCall runs one KeyStore call under recover.
func ksCall(f func() error) (err error, panicVal string, panicked bool) {
	panicVal, panicked = guard(func() { err = f() })
	return
}

func acctOf(s subject, path string) accounts.Account {
	a := accounts.Account{URL: accounts.URL{Scheme: keystore.KeyStoreScheme, Path: path}}
	copy(a.Address[:], s.addr[:])
	return a
}

// signsAs reports the address a signature of the account recovers to.
func signsAs(ks *keystore.KeyStore, a accounts.Account, hash []byte) ([20]byte, error) {
	var sig []byte
	err, pv, p := ksCall(func() (e error) { sig, e = ks.SignHash(a, hash); return })
	if p {
		return [20]byte{}, fmt.Errorf("SignHash panicked: %s", pv)
	}
	if err != nil {
		return [20]byte{}, err
	}
	ev.Label("api:SignHash")
	return refRecover(hash, sig)
}

// ksOps exercises Unlock, SignHashWithPassphrase, Export and Update on an
// account whose file on disk is `file`, with the right passphrase, and applies
// oracle (iii): each either fails or acts with the original key of s. It
// returns how many of them were accepted.
func ksOps(ks *keystore.KeyStore, a accounts.Account, s subject, pass string, hash []byte, pristine bool) (accepted int, bad string) {
	// Unlock + SignHash
	err, pv, p := ksCall(func() error { return ks.Unlock(a, pass) })
	if p {
		return 0, "Unlock panicked: " + pv
	}
	ev.Label("api:Unlock")
	if err == nil {
		accepted++
		got, err := signsAs(ks, a, hash)
		if err != nil {
			return 0, "SignHash after successful Unlock: " + err.Error()
		}
		if got != s.addr {
			return 0, fmt.Sprintf("after Unlock the account %x signs as %x (DIFFERENT KEY)", s.addr, got)
		}
	}
	ks.Lock(a.Address)
	if _, err := signsAs(ks, a, hash); err == nil {
		return 0, "SignHash succeeded on a locked account"
	}
	// SignHashWithPassphrase
	var sig []byte
	err, pv, p = ksCall(func() (e error) { sig, e = ks.SignHashWithPassphrase(a, pass, hash); return })
	if p {
		return 0, "SignHashWithPassphrase panicked: " + pv
	}
	ev.Label("api:SignHashWithPassphrase")
	if err == nil {
		accepted++
		got, rerr := refRecover(hash, sig)
		if rerr != nil || got != s.addr {
			return 0, fmt.Sprintf("SignHashWithPassphrase for account %x signs as %x (%v)", s.addr, got, rerr)
		}
	}
	// Export
	var exported []byte
	err, pv, p = ksCall(func() (e error) { exported, e = ks.Export(a, pass, pass+"-export"); return })
	if p {
		return 0, "Export panicked: " + pv
	}
	ev.Label("api:Export")
	if err == nil {
		accepted++
		if e := strictCheckID(exported, pass+"-export", s, pristine); e != nil {
			return 0, "Export: " + e.Error()
		}
	}
	// Update (to the same passphrase: the stored file is rewritten from the decrypted key)
	err, pv, p = ksCall(func() error { return ks.Update(a, pass, pass) })
	if p {
		return 0, "Update panicked: " + pv
	}
	ev.Label("api:Update")
	if err == nil {
		accepted++
		now, rerr := os.ReadFile(a.URL.Path)
		if rerr != nil {
			return 0, "Update: " + rerr.Error()
		}
		if e := strictCheckID(now, pass, s, pristine); e != nil {
			return 0, "Update: " + e.Error()
		}
	}
	return accepted, ""
}

func TestKeyStore(t *testing.T) {
	ev.Check(t, ev.N(100, 6_400), func(t *rapid.T) {
		tmp, err := os.MkdirTemp("", "c20-")
		if err != nil {
			t.Fatalf("tmp: %v", err)
		}
		defer os.RemoveAll(tmp)
		scalar, kclass := drawScalar(t)
		s := newSubject(scalar)
		pw := drawPass(t)
		pass := pw.s
		n := rapid.SampledFrom([]int{2, 2, 4, 16}).Draw(t, "ksN")
		p := rapid.SampledFrom([]int{1, 1, 2}).Draw(t, "ksP")
		hash := rapid.SliceOfN(rapid.Byte(), 32, 32).Draw(t, "hash")
		base := replayCase{Kind: "keystore", Scalar: hex.EncodeToString(s.scalar), PassHex: hex.EncodeToString([]byte(pass))}
		fail := func(format string, a ...interface{}) { failCase(t, base, format, a...) }
		lbls := append([]string{kclass, "kdf:scrypt", "format:v3", "source:EncryptKey"}, pw.labels...)

		ks := keystore.NewKeyStore(filepath.Join(tmp, "a"), n, p)

		// --- (i) ImportECDSA, Unlock, sign, Lock ---
		var a accounts.Account
		err, pv, pn := ksCall(func() (e error) { a, e = ks.ImportECDSA(s.priv(), pass); return })
		if pn || err != nil {
			fail("ImportECDSA failed: %v %s", err, pv)
		}
		ev.Label("api:ImportECDSA")
		if !bytes.Equal(a.Address[:], s.addr[:]) {
			fail("ImportECDSA returned address %x, want %x", a.Address, s.addr)
		}
		good, err := os.ReadFile(a.URL.Path)
		if err != nil {
			fail("key file: %v", err)
		}
		base.File = string(good)
		if e := strictCheck(good, pass, s); e != nil {
			fail("ImportECDSA: %v", e)
		}
		if _, err := signsAs(ks, a, hash); err == nil {
			fail("SignHash succeeded before Unlock")
		}
		// (ii) wrong passphrases never unlock
		wrong := nearMisses(t, pass, 4)
		if pw.twin != "" {
			wrong = append(wrong, pw.twin)
			ev.Label("wrongpass:nfc-nfd")
		}
		for _, w := range wrong {
			for _, op := range []struct {
				name string
				f    func() error
			}{
				{"Unlock", func() error { return ks.Unlock(a, w) }},
				{"SignHashWithPassphrase", func() (e error) { _, e = ks.SignHashWithPassphrase(a, w, hash); return }},
				{"Export", func() (e error) { _, e = ks.Export(a, w, "x"); return }},
				{"Update", func() error { return ks.Update(a, w, "x") }},
				{"Delete", func() error { return ks.Delete(a, w) }},
			} {
				name, f := op.name, op.f
				err, pv, pn := ksCall(f)
				if pn || err == nil {
					fail("%s accepted passphrase %q for a key stored under %q (panic=%v %s)", name, w, pass, pn, pv)
				}
			}
			if _, err := signsAs(ks, a, hash); err == nil {
				fail("account unlocked after a failed Unlock")
			}
			ev.Case(true, canon("ks-wp", base.Scalar, base.PassHex, w), "wrongpass:near-miss")
		}
		if now, _ := os.ReadFile(a.URL.Path); !bytes.Equal(now, good) {
			fail("a failed Update/Delete changed the key file")
		}
		acc, bad := ksOps(ks, a, s, pass, hash, true)
		if bad != "" || acc != 4 {
			fail("untampered account: %d of 4 operations accepted; %s", acc, bad)
		}
		ev.Case(s.scalar[0] == 0, canon("ks-rt", base.Scalar, base.PassHex), lbls...)

		// --- Update to a new passphrase, Export, Import elsewhere ---
		pass2 := drawPass(t).s
		if err, pv, pn := ksCall(func() error { return ks.Update(a, pass, pass2) }); pn || err != nil {
			fail("Update failed: %v %s", err, pv)
		}
		upd, _ := os.ReadFile(a.URL.Path)
		if e := strictCheck(upd, pass2, s); e != nil {
			fail("after Update: %v", e)
		}
		if !hmacEquivalent(pass2, pass) {
			if err, _, pn := ksCall(func() error { return ks.Unlock(a, pass) }); pn || err == nil {
				fail("the old passphrase still unlocks after Update")
			}
		}
		pass3 := drawPass(t).s
		var exported []byte
		if err, pv, pn := ksCall(func() (e error) { exported, e = ks.Export(a, pass2, pass3); return }); pn || err != nil {
			fail("Export failed: %v %s", err, pv)
		}
		if e := strictCheck(exported, pass3, s); e != nil {
			fail("Export: %v", e)
		}
		ks2 := keystore.NewKeyStore(filepath.Join(tmp, "b"), n, p)
		for _, w := range nearMisses(t, pass3, 2) {
			var got accounts.Account
			err, pv, pn := ksCall(func() (e error) { got, e = ks2.Import(exported, w, "x"); return })
			if pn || err == nil {
				fail("Import accepted passphrase %q for a file exported under %q (%v %s)", w, pass3, got, pv)
			}
		}
		if len(ks2.Accounts()) != 0 {
			fail("a failed Import left an account behind")
		}
		pass4 := drawPass(t).s
		var a2 accounts.Account
		if err, pv, pn := ksCall(func() (e error) { a2, e = ks2.Import(exported, pass3, pass4); return }); pn || err != nil {
			fail("Import failed: %v %s", err, pv)
		}
		ev.Label("api:Import")
		if !bytes.Equal(a2.Address[:], s.addr[:]) {
			fail("Import returned address %x, want %x", a2.Address, s.addr)
		}
		imp, _ := os.ReadFile(a2.URL.Path)
		if e := strictCheck(imp, pass4, s); e != nil {
			fail("Import: %v", e)
		}
		if acc, bad := ksOps(ks2, a2, s, pass4, hash, true); bad != "" || acc != 4 {
			fail("imported account: %d of 4 operations accepted; %s", acc, bad)
		}
		ev.Case(s.scalar[0] == 0, canon("ks-export-import", base.Scalar, base.PassHex, pass2, pass3, pass4), "api:Import", "api:Export", "api:Update")

		// --- NewAccount ---
		var na accounts.Account
		if err, pv, pn := ksCall(func() (e error) { na, e = ks2.NewAccount(pass); return }); pn || err != nil {
			fail("NewAccount failed: %v %s", err, pv)
		}
		ev.Label("api:NewAccount")
		nf, _ := os.ReadFile(na.URL.Path)
		nsc, naddr, err := refDecryptStrict(nf, pass, true)
		if err != nil || !bytes.Equal(naddr[:], na.Address[:]) {
			fail("NewAccount: file not decryptable by the strict reader or address differs: %v (%x vs %x)", err, naddr, na.Address)
		}
		ns := newSubject(nsc)
		if acc, bad := ksOps(ks2, na, ns, pass, hash, true); bad != "" || acc != 4 {
			fail("new account: %d of 4 operations accepted; %s", acc, bad)
		}

		// --- plaintext store (deprecated; same GetKey contract, no passphrase) ---
		pks := keystore.NewPlaintextKeyStore(filepath.Join(tmp, "p"))
		var pa accounts.Account
		if err, pv, pn := ksCall(func() (e error) { pa, e = pks.ImportECDSA(s.priv(), ""); return }); pn || err != nil {
			fail("plaintext ImportECDSA failed: %v %s", err, pv)
		}
		if err, pv, pn := ksCall(func() error { return pks.Unlock(pa, "") }); pn || err != nil {
			fail("plaintext Unlock failed: %v %s", err, pv)
		}
		if got, err := signsAs(pks, pa, hash); err != nil || got != s.addr {
			fail("plaintext store signs as %x, want %x (%v)", got, s.addr, err)
		}
		ev.Label("api:plain")

		// --- presale wallet ---
		seed := rapid.SliceOfN(rapid.Byte(), 32, 64).Draw(t, "seed")
		piv := rapid.SliceOfN(rapid.Byte(), 16, 16).Draw(t, "presale-iv")
		pj, psc := buildPresale(seed, pass, piv)
		psub := newSubject(psc)
		ks3 := keystore.NewKeyStore(filepath.Join(tmp, "c"), n, p)
		var pra accounts.Account
		if err, pv, pn := ksCall(func() (e error) { pra, e = ks3.ImportPreSaleKey(pj, pass); return }); pn || err != nil {
			fail("ImportPreSaleKey failed: %v %s\n%s", err, pv, pj)
		}
		if !bytes.Equal(pra.Address[:], psub.addr[:]) {
			fail("ImportPreSaleKey returned address %x, want %x", pra.Address, psub.addr)
		}
		prf, _ := os.ReadFile(pra.URL.Path)
		if e := strictCheck(prf, pass, psub); e != nil {
			fail("ImportPreSaleKey: %v", e)
		}
		for _, w := range nearMisses(t, pass, 2) {
			if err, pv, pn := ksCall(func() (e error) { _, e = ks3.ImportPreSaleKey(pj, w); return }); pn || err == nil {
				fail("ImportPreSaleKey accepted passphrase %q for a wallet under %q %s", w, pass, pv)
			}
		}
		proot, _ := fromJSON(pj)
		for i := 0; i < 6; i++ {
			enc := proot.get("encseed")
			pos := rapid.IntRange(0, len(enc)-1).Draw(t, "presale-pos")
			c, _ := hexStep(enc[pos], rapid.SampledFrom([]int{1, -1, 8}).Draw(t, "presale-d"))
			alt := tamper{Field: "encseed", Op: "repl", Pos: pos, Ch: string(c)}.apply(proot)
			var got accounts.Account
			err, pv, pn := ksCall(func() (e error) { got, e = ks3.ImportPreSaleKey(alt.JSON(), pass); return })
			if pn {
				fail("ImportPreSaleKey panicked on an altered wallet: %s", pv)
			}
			if err == nil && !bytes.Equal(got.Address[:], psub.addr[:]) {
				fail("ImportPreSaleKey of an altered wallet yields address %x, original %x", got.Address, psub.addr)
			}
			ev.Case(true, canon("presale", base.Scalar, base.PassHex, alt.get("encseed")), "format:presale", "field:encseed")
		}

		// --- (iii) altered files under a running KeyStore and under a rescan ---
		// ks holds the account with passphrase pass2 now; put the file back under `pass`.
		if err, _, pn := ksCall(func() error { return ks.Update(a, pass2, pass) }); pn || err != nil {
			fail("Update back failed: %v", err)
		}
		good, _ = os.ReadFile(a.URL.Path)
		root, err := fromJSON(good)
		if err != nil {
			fail("key file does not parse: %v", err)
		}
		origIV, _ := hex.DecodeString(root.get("iv"))
		hexAt := func(f string) tamper {
			h, _, _ := root.find(f)
			pos := rapid.IntRange(0, len(h.raw)-1).Draw(t, "ks-"+f+"-pos")
			c, _ := hexStep(h.raw[pos], rapid.SampledFrom([]int{1, -1, 5}).Draw(t, "ks-"+f+"-d"))
			return tamper{Field: f, Op: "repl", Pos: pos, Ch: string(c)}
		}
		tampers := []tamper{hexAt("iv"), hexAt("address"), hexAt("ciphertext"), hexAt("mac"), hexAt("salt"),
			{Field: "iv", Op: "remove"}, {Field: "salt", Op: "type", Alt: "12345"}, {Field: "dklen", Op: "repl", Pos: 0, Ch: "2"},
			{Field: "n", Op: "type", Alt: "flip"}, {Field: "address", Op: "remove"}}
		sampled := sampleTampers(t, root)
		for i := 0; i < 6; i++ {
			tampers = append(tampers, sampled[rapid.IntRange(0, len(sampled)-1).Draw(t, "ks-tamper")])
		}
		ksImp := keystore.NewKeyStore(filepath.Join(tmp, "imp"), n, p)
		for i, tm := range tampers {
			alt := tm.apply(root)
			if alt == nil {
				continue
			}
			af := alt.JSON()
			c := base
			c.File, c.Tamper, c.OrigIV = string(af), tm.String(), root.get("iv")
			sh := shapeOf(af)
			if sh.tooExpensive(workLimit) {
				ev.Add("generator/kdf-too-expensive", 1)
				continue
			}
			shapeKey := knownShape(sh, origIV, true)
			panicShape := shapeKey != "" && shapeKey != kIV
			if panicShape && ev.Known(shapeKey) {
				ev.Excluded(shapeKey)
				continue
			}
			// running: the cached account's file is overwritten
			if err := os.WriteFile(a.URL.Path, af, 0o600); err != nil {
				fail("write: %v", err)
			}
			acc, bad := ksOps(ks, a, s, pass, hash, false)
			if bad != "" {
				failCase(t, c, "running KeyStore, altered file (%s): %s", tm, bad)
			}
			if shapeKey == kIV {
				if acc != 0 {
					failCase(t, c, "running KeyStore accepted an altered IV (%d operations)", acc)
				}
				ev.Label("ks:iv-tamper-caught-by-GetKey")
			}
			ev.Case(sh.Parses && sh.Complete, canon("ks-run", base.Scalar, base.PassHex, tm.String()), "ks:tamper-running", "field:"+tm.Field, "op:"+tm.Op, fmt.Sprintf("ks:accepted-%d", acc))
			os.WriteFile(a.URL.Path, good, 0o600)

			// rescan: a new KeyStore finds the altered file in its directory
			dir := filepath.Join(tmp, fmt.Sprintf("r%d", i))
			os.MkdirAll(dir, 0o700)
			os.WriteFile(filepath.Join(dir, filepath.Base(a.URL.Path)), af, 0o600)
			ksr := keystore.NewKeyStore(dir, n, p)
			var listed []accounts.Account
			if pv, pn := guard(func() { listed = ksr.Accounts() }); pn {
				failCase(t, c, "Accounts() panicked on a directory with an altered file: %s", pv)
			}
			for _, la := range listed {
				ls := s
				if !bytes.Equal(la.Address[:], s.addr[:]) {
					// listed under the altered address: no operation may succeed at all
					ls = subject{scalar: s.scalar}
					copy(ls.addr[:], la.Address[:])
				}
				acc, bad := ksOps(ksr, la, ls, pass, hash, false)
				if bad != "" {
					failCase(t, c, "rescanned KeyStore, altered file (%s), account %x: %s", tm, la.Address, bad)
				}
				if acc != 0 && !bytes.Equal(la.Address[:], s.addr[:]) {
					failCase(t, c, "rescanned KeyStore: account listed under the altered address %x was usable", la.Address)
				}
			}
			ev.Case(sh.Parses && sh.Complete, canon("ks-rescan", base.Scalar, base.PassHex, tm.String()), "ks:tamper-rescan", fmt.Sprintf("ks:listed-%d", len(listed)))

			// Import of the altered file
			if shapeKey == kIV && ev.Known(kIV) {
				ev.Excluded(kIV)
				continue
			}
			var ia accounts.Account
			err, pv, pn := ksCall(func() (e error) { ia, e = ksImp.Import(af, pass, pass); return })
			if pn {
				failCase(t, c, "Import panicked on an altered file (%s): %s", tm, pv)
			}
			if err == nil {
				if !bytes.Equal(ia.Address[:], s.addr[:]) {
					failCase(t, c, "Import of an altered file (%s) created account %x, original %x (DIFFERENT KEY)", tm, ia.Address, s.addr)
				}
				stored, _ := os.ReadFile(ia.URL.Path)
				if e := strictCheckID(stored, pass, s, false); e != nil {
					failCase(t, c, "Import of an altered file (%s): %v", tm, e)
				}
			}
			ev.Case(sh.Parses && sh.Complete, canon("ks-import", base.Scalar, base.PassHex, tm.String()), "api:Import", "ks:tamper-import")
		}

		// --- swap attack: another key's file (same passphrase) under this account's name ---
		other, _ := drawScalar(t)
		so := newSubject(other)
		if !bytes.Equal(so.scalar, s.scalar) {
			oroot, err := encryptChecked(so, pass, n, p)
			if err != nil {
				fail("%v", err)
			}
			for _, keepAddr := range []bool{false, true} {
				sw := oroot.clone()
				if keepAddr { // the attacker also rewrites the address member to the victim's
					h, _, _ := sw.find("address")
					h.raw = s.addrHex()
				}
				os.WriteFile(a.URL.Path, sw.JSON(), 0o600)
				c := base
				c.File, c.Tamper = string(sw.JSON()), fmt.Sprintf("swap(keepAddr=%v)", keepAddr)
				acc, bad := ksOps(ks, a, s, pass, hash, false)
				if bad != "" || acc != 0 {
					failCase(t, c, "swap attack: account %x operated with the file of key %x: %d operations accepted; %s", s.addr, so.addr, acc, bad)
				}
				ev.Case(true, canon("ks-swap", base.Scalar, base.PassHex, hex.EncodeToString(so.scalar), fmt.Sprint(keepAddr)), "ks:swap-attack")
			}
			os.WriteFile(a.URL.Path, good, 0o600)
		}
	})
}
