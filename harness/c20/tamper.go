// Key files as editable token trees, the single-alteration tamper operators,
// and the shape analysis (cost guard, known-finding shapes). No keystore import.
package c20

import (
	"bytes"
	"encoding/hex"
	"encoding/json"
	"fmt"
	"math"
	"sort"
	"strconv"
	"strings"
)

// node is one JSON member. Leaves carry their token text: for strings the
// content between the quotes (written without escaping, so that an inserted
// quote or backslash really damages the file), for everything else the raw
// token.
type node struct {
	key   string
	raw   string
	isStr bool
	obj   bool
	kids  []*node
}

func str(k, v string) *node     { return &node{key: k, raw: v, isStr: true} }
func num(k string, v int) *node { return &node{key: k, raw: strconv.Itoa(v)} }

func (n *node) clone() *node {
	c := *n
	c.kids = make([]*node, len(n.kids))
	for i, k := range n.kids {
		c.kids[i] = k.clone()
	}
	return &c
}

func (n *node) write(b *bytes.Buffer) {
	if n.obj {
		b.WriteByte('{')
		for i, k := range n.kids {
			if i > 0 {
				b.WriteByte(',')
			}
			b.WriteByte('"')
			b.WriteString(k.key)
			b.WriteString(`":`)
			k.write(b)
		}
		b.WriteByte('}')
		return
	}
	if n.isStr {
		b.WriteByte('"')
		b.WriteString(n.raw)
		b.WriteByte('"')
		return
	}
	b.WriteString(n.raw)
}

func (n *node) JSON() []byte {
	var b bytes.Buffer
	n.write(&b)
	return b.Bytes()
}

// find returns the member named key (names are unique in a key file), its
// parent and its index there.
func (n *node) find(key string) (hit, parent *node, idx int) {
	for i, k := range n.kids {
		if k.key == key {
			return k, n, i
		}
		if k.obj {
			if h, p, j := k.find(key); h != nil {
				return h, p, j
			}
		}
	}
	return nil, nil, -1
}

func (n *node) get(key string) string {
	if h, _, _ := n.find(key); h != nil {
		return h.raw
	}
	return ""
}

// fromJSON turns a key file (as written by the keystore) into a token tree with
// the members in sorted order.
func fromJSON(b []byte) (*node, error) {
	dec := json.NewDecoder(bytes.NewReader(b))
	dec.UseNumber()
	var v interface{}
	if err := dec.Decode(&v); err != nil {
		return nil, err
	}
	var conv func(key string, v interface{}) (*node, error)
	conv = func(key string, v interface{}) (*node, error) {
		switch x := v.(type) {
		case map[string]interface{}:
			n := &node{key: key, obj: true}
			keys := make([]string, 0, len(x))
			for k := range x {
				keys = append(keys, k)
			}
			sort.Strings(keys)
			for _, k := range keys {
				c, err := conv(k, x[k])
				if err != nil {
					return nil, err
				}
				n.kids = append(n.kids, c)
			}
			return n, nil
		case string:
			if strings.ContainsAny(x, "\"\\") {
				return nil, fmt.Errorf("string needing escapes in key file: %q", x)
			}
			return str(key, x), nil
		case json.Number:
			return &node{key: key, raw: x.String()}, nil
		}
		return nil, fmt.Errorf("unexpected JSON value %T in key file", v)
	}
	return conv("", v)
}

// ---------- tamper operators ----------

// tamper is one alteration of one member of the file.
type tamper struct {
	Field string `json:"field"`
	Op    string `json:"op"` // repl | del | ins | type | remove
	Pos   int    `json:"pos"`
	Ch    string `json:"ch"`  // replacement / inserted character
	Alt   string `json:"alt"` // for Op "type": the new raw token
}

func (t tamper) String() string {
	switch t.Op {
	case "repl", "ins":
		return fmt.Sprintf("%s:%s@%d:%q", t.Field, t.Op, t.Pos, t.Ch)
	case "del":
		return fmt.Sprintf("%s:del@%d", t.Field, t.Pos)
	case "type":
		return fmt.Sprintf("%s:type:%s", t.Field, t.Alt)
	}
	return t.Field + ":" + t.Op
}

// apply returns the altered copy, or nil when the alteration does not apply
// (field absent, position out of range, or no change).
func (t tamper) apply(root *node) *node {
	c := root.clone()
	h, p, i := c.find(t.Field)
	if h == nil || h.obj {
		return nil
	}
	switch t.Op {
	case "repl":
		if t.Pos < 0 || t.Pos >= len(h.raw) || len(t.Ch) != 1 || h.raw[t.Pos] == t.Ch[0] {
			return nil
		}
		h.raw = h.raw[:t.Pos] + t.Ch + h.raw[t.Pos+1:]
	case "del":
		if t.Pos < 0 || t.Pos >= len(h.raw) {
			return nil
		}
		h.raw = h.raw[:t.Pos] + h.raw[t.Pos+1:]
	case "ins":
		if t.Pos < 0 || t.Pos > len(h.raw) || len(t.Ch) != 1 {
			return nil
		}
		h.raw = h.raw[:t.Pos] + t.Ch + h.raw[t.Pos:]
	case "type":
		switch t.Alt {
		case "flip": // string <-> number with the same characters
			if h.isStr {
				h.isStr = false
				if h.raw == "" {
					h.raw = "0"
				}
			} else {
				h.isStr = true
			}
		default:
			h.isStr = false
			h.raw = t.Alt
		}
	case "remove":
		p.kids = append(p.kids[:i], p.kids[i+1:]...)
	default:
		return nil
	}
	return c
}

// tamperFields are the members the property quantifies over.
var tamperFields = []string{"ciphertext", "mac", "iv", "salt", "n", "r", "p", "dklen", "c", "prf", "kdf", "cipher", "version", "address", "id"}

// alphabet for replacement and insertion: hex digits of both cases, a non-hex
// letter, digits that change magnitudes, JSON-significant characters.
var alphabet = []byte("0123456789abcdefABCDEFgx-.e \"\\")

var typeAlts = []string{"flip", "null", "true", "0", "12345", "-1", "1.5", "[]", "{}", "\"\"", "[1]", "{\"a\":1}", "1e3"}

func hexStep(c byte, d int) (byte, bool) {
	const digits = "0123456789abcdef"
	i := strings.IndexByte(digits, c)
	if i < 0 {
		return 0, false
	}
	return digits[(i+d+16)%16], true
}

// insertAlphabetLong is the reduced insertion alphabet used in the quick tier
// for the long hex members, where any inserted character makes the length odd.
var insertAlphabetLong = []byte("0aFg\"\\")

// allTampers enumerates every single alteration of one member: every position
// x (every alphabet character as replacement, deletion, every alphabet
// character inserted before it and at the end), every type change, removal.
// With reducedIns the insertions into members of 20 or more characters use the
// 6-character alphabet.
func allTampers(root *node, field string, reducedIns bool) []tamper {
	h, _, _ := root.find(field)
	if h == nil || h.obj {
		return nil
	}
	ins := alphabet
	if reducedIns && len(h.raw) >= 20 {
		ins = insertAlphabetLong
	}
	var out []tamper
	for pos := 0; pos <= len(h.raw); pos++ {
		for _, ch := range alphabet {
			if pos < len(h.raw) && h.raw[pos] != ch {
				out = append(out, tamper{Field: field, Op: "repl", Pos: pos, Ch: string(ch)})
			}
		}
		for _, ch := range ins {
			out = append(out, tamper{Field: field, Op: "ins", Pos: pos, Ch: string(ch)})
		}
		if pos < len(h.raw) {
			out = append(out, tamper{Field: field, Op: "del", Pos: pos})
		}
	}
	for _, a := range typeAlts {
		out = append(out, tamper{Field: field, Op: "type", Alt: a})
	}
	out = append(out, tamper{Field: field, Op: "remove"})
	return out
}

// ---------- shape analysis of an arbitrary (possibly damaged) file ----------

// The two structs mirror the documented member layout of the v3 and v1 files,
// so that encoding/json resolves duplicate members, letter case and type
// mismatches here exactly as it does for any reader using the same layout.
type shapeCrypto struct {
	Cipher       string `json:"cipher"`
	CipherText   string `json:"ciphertext"`
	CipherParams struct {
		IV string `json:"iv"`
	} `json:"cipherparams"`
	KDF       string                 `json:"kdf"`
	KDFParams map[string]interface{} `json:"kdfparams"`
	MAC       string                 `json:"mac"`
}
type shapeV3 struct {
	Address string      `json:"address"`
	Crypto  shapeCrypto `json:"crypto"`
	Id      string      `json:"id"`
	Version int         `json:"version"`
}
type shapeV1 struct {
	Address string      `json:"address"`
	Crypto  shapeCrypto `json:"crypto"`
	Id      string      `json:"id"`
	Version string      `json:"version"`
}

type shape struct {
	Parses   bool // JSON object that fits the member layout (no syntax or type error)
	V1       bool
	Address  string
	Crypto   shapeCrypto
	Complete bool // all members the reader uses are present with the documented types
}

func shapeOf(file []byte) shape {
	var s shape
	m := map[string]interface{}{}
	if json.Unmarshal(file, &m) != nil {
		return s
	}
	if v, ok := m["version"].(string); ok && v == "1" {
		var f shapeV1
		if json.Unmarshal(file, &f) != nil {
			return s
		}
		s.V1, s.Address, s.Crypto = true, f.Address, f.Crypto
	} else {
		var f shapeV3
		if json.Unmarshal(file, &f) != nil {
			return s
		}
		s.Address, s.Crypto = f.Address, f.Crypto
	}
	s.Parses = true
	s.Complete = s.Crypto.Cipher != "" && s.Crypto.CipherText != "" && s.Crypto.CipherParams.IV != "" && s.Crypto.MAC != "" &&
		s.Crypto.KDF != "" && !s.typeShape() && m["version"] != nil
	return s
}

func isNum(v interface{}) bool  { _, ok := v.(float64); return ok }
func isStrV(v interface{}) bool { _, ok := v.(string); return ok }

func toInt(v interface{}) int {
	f, _ := v.(float64)
	return int(f)
}

// typeShape: a KDF parameter the reader needs is absent or has the wrong JSON
// type (salt / prf not a string; dklen, n, r, p, c not a number).
func (s shape) typeShape() bool {
	p := s.Crypto.KDFParams
	if !isStrV(p["salt"]) || !isNum(p["dklen"]) {
		return true
	}
	switch s.Crypto.KDF {
	case "scrypt":
		return !isNum(p["n"]) || !isNum(p["r"]) || !isNum(p["p"])
	case "pbkdf2":
		return !isNum(p["c"]) || !isStrV(p["prf"])
	}
	return false
}

// dklenNonPositiveShape: numeric dklen <= 0. (1..31 happen not to panic: the
// KDF output slice has a capacity of whole 32-byte blocks, which
// derivedKey[16:32] silently re-extends; the result is the 32-byte derivation.)
func (s shape) dklenNonPositiveShape() bool {
	return !s.typeShape() && toInt(s.Crypto.KDFParams["dklen"]) < 1
}

// scryptZeroShape: scrypt with a valid N and r == 0 or p == 0 (x/crypto's
// scrypt.Key divides by them while validating).
func (s shape) scryptZeroShape() bool {
	if s.typeShape() || s.Crypto.KDF != "scrypt" {
		return false
	}
	p := s.Crypto.KDFParams
	n := toInt(p["n"])
	return n > 1 && n&(n-1) == 0 && (toInt(p["r"]) == 0 || toInt(p["p"]) == 0)
}

// cbcBlockShape: a version-"1" (AES-CBC) file whose ciphertext is valid hex
// but not a whole number of AES blocks (e.g. a v3 file with the 31-byte legacy
// ciphertext whose version member was rewritten to "1").
func (s shape) cbcBlockShape() bool {
	b, err := hex.DecodeString(s.Crypto.CipherText)
	return s.V1 && err == nil && len(b)%16 != 0
}

// ivLengthShape: the iv is valid hex but not one AES block long.
func (s shape) ivLengthShape() bool {
	b, err := hex.DecodeString(s.Crypto.CipherParams.IV)
	return err == nil && len(b) != 16
}

// tooExpensive reports whether deriving the key with the file's parameters
// would need more than 64 MiB or more work than workLimit block mixes /
// HMAC rounds. The keystore imposes no limit of its own, so such files are
// left out of the search (and counted), they are not passes.
func (s shape) tooExpensive(workLimit float64) bool {
	if !s.Parses || s.typeShape() {
		return false
	}
	p := s.Crypto.KDFParams
	dk := float64(toInt(p["dklen"]))
	if dk > 1<<20 {
		return true
	}
	switch s.Crypto.KDF {
	case "scrypt":
		n, r, pp := toInt(p["n"]), toInt(p["r"]), toInt(p["p"])
		if n <= 1 || n&(n-1) != 0 || r <= 0 || pp <= 0 {
			return false // rejected by parameter validation before any work
		}
		N, R, P := float64(n), float64(r), float64(pp)
		if R*P >= 1<<30 || R > math.MaxInt64/128/P || R > math.MaxInt64/256 || N > math.MaxInt64/128/R {
			return false
		}
		mem := 128*R*N + 128*R*P + 256*R
		return mem > 64<<20 || N*R*P > workLimit
	case "pbkdf2":
		c := float64(toInt(p["c"]))
		if c < 1 {
			c = 1
		}
		blocks := math.Ceil(math.Max(dk, 1) / 32)
		return c*blocks > workLimit
	}
	return false
}
