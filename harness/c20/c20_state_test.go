package c20

// Oracle (ii) over the STATES of an account inside one running KeyStore.
//
// "With any other passphrase unlocking fails with an error" is quantified over
// every passphrase and says nothing about what the KeyStore holds in memory:
// it has to hold for an account that was never unlocked, that is unlocked
// indefinitely, that is unlocked with a timeout, that was locked again (by Lock
// or by the timeout), whose passphrase was changed by Update, and for every
// entry point that takes a passphrase. The machine below keeps a model of
// (account -> current passphrase, unlock state, files exported from it) next to
// one KeyStore, issues calls with right and with other passphrases in a drawn
// order and compares each result with the model.
//
// The script of a case (set-up and steps) is plain data: a failing case is
// saved as JSON and TestReplay re-executes it without rapid.

import (
	"bytes"
	"encoding/hex"
	"fmt"
	"math/big"
	"os"
	"path/filepath"
	"sort"
	"testing"
	"time"

	"gitlab.com/aquachain/aquachain/aqua/accounts"
	"gitlab.com/aquachain/aquachain/aqua/accounts/keystore"
	"gitlab.com/aquachain/aquachain/common"
	"gitlab.com/aquachain/aquachain/core/types"
	"pgregory.net/rapid"
	"verifharness/ev"
)

// passphrase-taking entry points, in the order a sweep starts from
var ksEntries = []string{
	"SignHashWithPassphrase", "SignTxWithPassphrase", "Wallet.SignHashWithPassphrase", "Wallet.SignTxWithPassphrase",
	"Export", "Unlock", "TimedUnlock", "Update", "Delete", "Import",
}

const (
	stLocked = "locked"
	stIndef  = "indef"
	stTimed  = "timed"

	longTimeout  = int64(6 * time.Hour) // never expires within a run
	briefTimeout = int64(time.Millisecond)
	expiryWait   = 30 * time.Second // generous: the expiry takes about a millisecond; running out of it skips, never fails
)

type ksSetup struct {
	How     string `json:"how"` // "ecdsa" | "new" | "file"
	Scalar  string `json:"scalar,omitempty"`
	PassHex string `json:"pass_hex"`
	File    string `json:"file,omitempty"` // how=file: a key file present in the directory before the KeyStore opens it
	Kind    string `json:"kind,omitempty"`
}

type ksStep struct {
	Op         string `json:"op"` // "call" | "sweep" | "lock" | "probe" | "brief" | "restore"
	Acct       int    `json:"acct"`
	Entry      string `json:"entry,omitempty"`
	PassHex    string `json:"pass_hex,omitempty"`
	NewPassHex string `json:"new_pass_hex,omitempty"`
	Timeout    int64  `json:"timeout,omitempty"`
	Form       string `json:"form,omitempty"` // how the account is named: "full" | "addr" | "url"
	Export     int    `json:"export,omitempty"`
	Hash       string `json:"hash,omitempty"`
	Chain      int64  `json:"chain,omitempty"` // 0: no chain id (homestead signer)
	Rel        string `json:"rel,omitempty"`   // how the passphrase relates to the account's (informational)
}

type ksScript struct {
	N     int       `json:"n"`
	P     int       `json:"p"`
	Setup []ksSetup `json:"setup"`
	Steps []ksStep  `json:"steps"`
}

type ksExport struct {
	json []byte
	pass string
}

type ksAcct struct {
	s       subject
	acct    accounts.Account
	pass    string   // the passphrase the file on disk is stored under
	old     []string // earlier passphrases
	live    bool     // listed by the KeyStore (false after Delete)
	unlock  string
	how     string // how it became locked: "fresh" | "after-Lock" | "after-expiry"
	exports []ksExport
	// strict: the file on disk was written by this KeyStore (strict reader applies)
	written bool
}

func (a *ksAcct) state() string {
	switch a.unlock {
	case stIndef:
		return "unlocked-indefinitely"
	case stTimed:
		return "unlocked-timed"
	}
	return "locked-" + a.how
}

type ksMachine struct {
	ks    *keystore.KeyStore
	accts []*ksAcct
}

func unhex(s string) string { b, _ := hex.DecodeString(s); return string(b) }
func hx(s string) string    { return hex.EncodeToString([]byte(s)) }

// newKSMachine builds the KeyStore of a script's set-up. A non-empty bad is a
// violation of the round-trip clause at set-up (or a harness problem).
func newKSMachine(dir string, sc *ksScript) (m *ksMachine, bad string) {
	if err := os.MkdirAll(dir, 0o700); err != nil {
		return nil, "mkdir: " + err.Error()
	}
	m = &ksMachine{}
	// files that are there before the KeyStore opens the directory
	for i, su := range sc.Setup {
		if su.How == "file" {
			if err := os.WriteFile(filepath.Join(dir, fmt.Sprintf("UTC--pre-%d", i)), []byte(su.File), 0o600); err != nil {
				return nil, "write: " + err.Error()
			}
		}
	}
	m.ks = keystore.NewKeyStore(dir, sc.N, sc.P)
	listed := m.ks.Accounts()
	for i, su := range sc.Setup {
		a := &ksAcct{pass: unhex(su.PassHex), live: true, unlock: stLocked, how: "fresh"}
		switch su.How {
		case "ecdsa":
			b, _ := hex.DecodeString(su.Scalar)
			a.s = newSubject(b)
			err, pv, pn := ksCall(func() (e error) { a.acct, e = m.ks.ImportECDSA(a.s.priv(), a.pass); return })
			if pn || err != nil {
				return nil, fmt.Sprintf("ImportECDSA failed: %v %s", err, pv)
			}
			a.written = true
		case "new":
			err, pv, pn := ksCall(func() (e error) { a.acct, e = m.ks.NewAccount(a.pass); return })
			if pn || err != nil {
				return nil, fmt.Sprintf("NewAccount failed: %v %s", err, pv)
			}
			f, _ := os.ReadFile(a.acct.URL.Path)
			nsc, _, err := refDecryptStrict(f, a.pass, true)
			if err != nil {
				return nil, fmt.Sprintf("NewAccount: the file written is not decrypted by the strict reader: %v", err)
			}
			a.s = newSubject(nsc)
			a.written = true
		case "file":
			b, _ := hex.DecodeString(su.Scalar)
			a.s = newSubject(b)
			want := filepath.Join(dir, fmt.Sprintf("UTC--pre-%d", i))
			found := false
			for _, la := range listed {
				if la.URL.Path == want {
					a.acct, found = la, true
				}
			}
			if !found {
				return nil, fmt.Sprintf("the KeyStore does not list the key file %s present in its directory (%d listed)", want, len(listed))
			}
		default:
			return nil, "unknown set-up " + su.How
		}
		if !bytes.Equal(a.acct.Address[:], a.s.addr[:]) {
			return nil, fmt.Sprintf("%s: account address %x, want %x", su.How, a.acct.Address, a.s.addr)
		}
		for _, o := range m.accts {
			if o.s.addr == a.s.addr {
				return nil, "harness: duplicate key in set-up"
			}
		}
		m.accts = append(m.accts, a)
	}
	return m, ""
}

func (a *ksAcct) named(form string) accounts.Account {
	switch form {
	case "addr":
		return accounts.Account{Address: a.acct.Address}
	case "url":
		return accounts.Account{URL: a.acct.URL}
	}
	return a.acct
}

func txOf(hash []byte) *types.Transaction {
	var to common.Address
	copy(to[:], hash[1:21])
	return types.NewTransaction(uint64(hash[0]), to, big.NewInt(int64(hash[21])), 21000+uint64(hash[22]), big.NewInt(1+int64(hash[23])), hash[24:])
}

func txSender(tx *types.Transaction, chain int64) ([20]byte, error) {
	var signer types.Signer = types.HomesteadSigner{}
	if chain != 0 {
		signer = types.NewEIP155Signer(big.NewInt(chain))
	}
	from, err := types.Sender(signer, tx)
	return [20]byte(from), err
}

func chainID(chain int64) *big.Int {
	if chain == 0 {
		return nil
	}
	return big.NewInt(chain)
}

func (m *ksMachine) wallet(a *ksAcct) accounts.Wallet {
	for _, w := range m.ks.Wallets() {
		if w.Contains(a.acct) {
			return w
		}
	}
	return nil
}

// canSign reports whether the account signs without a passphrase right now,
// and fails if it signs as anybody else.
func (m *ksMachine) canSign(a *ksAcct, hash []byte) (bool, string) {
	got, err := signsAs(m.ks, a.acct, hash)
	if err != nil {
		return false, ""
	}
	if got != a.s.addr {
		return true, fmt.Sprintf("account %x signs as %x (DIFFERENT KEY)", a.s.addr, got)
	}
	return true, ""
}

// settled compares the unlock state of the account with the model.
func (m *ksMachine) settled(a *ksAcct, hash []byte, after string) string {
	ok, bad := m.canSign(a, hash)
	if bad != "" {
		return after + ": " + bad
	}
	if a.unlock == stLocked && ok {
		return fmt.Sprintf("%s: the account signs without a passphrase although it is locked (%s)", after, a.state())
	}
	if a.unlock != stLocked && !ok {
		return fmt.Sprintf("%s: the account does not sign although it was unlocked with the right passphrase (%s)", after, a.state())
	}
	return ""
}

// do executes one step against the KeyStore and the model; a non-empty result
// is a violation.
func (m *ksMachine) do(st ksStep) string {
	if st.Acct < 0 || st.Acct >= len(m.accts) {
		return ""
	}
	a := m.accts[st.Acct]
	hash, _ := hex.DecodeString(st.Hash)
	if len(hash) != 32 {
		hash = keccak([]byte("c20-state"))
	}
	switch st.Op {
	case "call":
		return m.call(a, st, hash)
	case "sweep":
		start := int(hash[0]) % len(ksEntries)
		for i := range ksEntries {
			s2 := st
			s2.Entry = ksEntries[(start+i)%len(ksEntries)]
			if unhex(st.PassHex) == a.pass {
				return "" // a sweep is for other passphrases only
			}
			if bad := m.call(a, s2, hash); bad != "" {
				return bad
			}
		}
		return ""
	case "lock":
		if err, pv, pn := ksCall(func() error { return m.ks.Lock(a.acct.Address) }); pn || err != nil {
			return fmt.Sprintf("Lock failed: %v %s", err, pv)
		}
		if a.unlock != stLocked || a.how == "fresh" {
			a.how = "after-Lock"
		}
		a.unlock = stLocked
		ev.Label("ksstate:Lock")
		return m.settled(a, hash, "after Lock")
	case "probe":
		if !a.live {
			return ""
		}
		if bad := m.settled(a, hash, "probe"); bad != "" {
			return bad
		}
		// the other signing paths that take no passphrase
		tx := txOf(hash)
		var signed *types.Transaction
		named := a.named(st.Form)
		if st.Form == "url" {
			named = a.acct // SignTx looks the unlocked key up by address
		}
		err, pv, pn := ksCall(func() (e error) { signed, e = m.ks.SignTx(named, tx, chainID(st.Chain)); return })
		if pn {
			return "SignTx panicked: " + pv
		}
		if (err == nil) != (a.unlock != stLocked) {
			return fmt.Sprintf("SignTx without passphrase: err=%v in state %s", err, a.state())
		}
		if err == nil {
			if from, e := txSender(signed, st.Chain); e != nil || from != a.s.addr {
				return fmt.Sprintf("SignTx: the transaction of account %x has sender %x (%v)", a.s.addr, from, e)
			}
		}
		if w := m.wallet(a); w != nil {
			var sig []byte
			err, pv, pn := ksCall(func() (e error) { sig, e = w.SignHash(a.acct, hash); return })
			if pn {
				return "Wallet.SignHash panicked: " + pv
			}
			if (err == nil) != (a.unlock != stLocked) {
				return fmt.Sprintf("Wallet.SignHash without passphrase: err=%v in state %s", err, a.state())
			}
			if err == nil {
				if got, e := refRecover(hash, sig); e != nil || got != a.s.addr {
					return fmt.Sprintf("Wallet.SignHash of account %x signs as %x (%v)", a.s.addr, got, e)
				}
			}
		}
		ev.Label("ksstate:probe@" + a.state())
		return ""
	case "brief":
		// unlock with the right passphrase for a moment and let the timeout lock it again
		if !a.live || a.unlock == stIndef {
			return ""
		}
		err, pv, pn := ksCall(func() error { return m.ks.TimedUnlock(a.named(st.Form), a.pass, time.Duration(briefTimeout)) })
		if pn || err != nil {
			return fmt.Sprintf("TimedUnlock refused the right passphrase %q in state %s: %v %s", a.pass, a.state(), err, pv)
		}
		deadline := time.Now().Add(expiryWait)
		for {
			ok, bad := m.canSign(a, hash)
			if bad != "" {
				return "during a timed unlock: " + bad
			}
			if !ok {
				a.unlock, a.how = stLocked, "after-expiry"
				ev.Label("ksstate:expired")
				return ""
			}
			if time.Now().After(deadline) {
				// not a verdict: lock it ourselves and go on
				ev.Add("inconclusive/unlock-expiry-not-seen", 1)
				m.ks.Lock(a.acct.Address)
				a.unlock, a.how = stLocked, "after-Lock"
				return ""
			}
			time.Sleep(200 * time.Microsecond)
		}
	case "restore":
		return m.restore(a, st, hash)
	}
	return ""
}

// restore brings a deleted account back: Import of a file exported from it
// earlier (with that file's passphrase) or ImportECDSA of the key.
func (m *ksMachine) restore(a *ksAcct, st ksStep, hash []byte) string {
	if a.live {
		return ""
	}
	np := unhex(st.NewPassHex)
	var got accounts.Account
	if st.Entry == "Import" && len(a.exports) > 0 {
		ex := a.exports[st.Export%len(a.exports)]
		err, pv, pn := ksCall(func() (e error) { got, e = m.ks.Import(ex.json, ex.pass, np); return })
		if pn || err != nil {
			return fmt.Sprintf("Import refused the right passphrase %q of an exported file: %v %s", ex.pass, err, pv)
		}
		ev.Label("ksstate:restore-Import")
	} else {
		err, pv, pn := ksCall(func() (e error) { got, e = m.ks.ImportECDSA(a.s.priv(), np); return })
		if pn || err != nil {
			return fmt.Sprintf("ImportECDSA of a deleted account failed: %v %s", err, pv)
		}
		ev.Label("ksstate:restore-ImportECDSA")
	}
	if !bytes.Equal(got.Address[:], a.s.addr[:]) {
		return fmt.Sprintf("re-import returned address %x, want %x", got.Address, a.s.addr)
	}
	f, _ := os.ReadFile(got.URL.Path)
	if e := strictCheck(f, np, a.s); e != nil {
		return "re-import: " + e.Error()
	}
	a.old = append(a.old, a.pass)
	a.acct, a.pass, a.live, a.written = got, np, true, true
	return m.settled(a, hash, "after re-import")
}

// call issues one passphrase-taking call and judges it by the model: the
// right passphrase of a listed account must be accepted (and act with the
// account's key), every other passphrase must be refused with an error, in
// whatever state the account is.
func (m *ksMachine) call(a *ksAcct, st ksStep, hash []byte) string {
	pass, np := unhex(st.PassHex), unhex(st.NewPassHex)
	target := a.pass
	var ex ksExport
	if st.Entry == "Import" {
		if len(a.exports) == 0 {
			return ""
		}
		ex = a.exports[st.Export%len(a.exports)]
		target = ex.pass
	}
	right := pass == target
	if !right && hmacEquivalent(pass, target) {
		ev.Add("generator/hmac-equivalent-passphrase", 1)
		return ""
	}
	if st.Entry == "Import" && right {
		return "" // the accepted Import is the "restore" step
	}
	expectOK := right && a.live
	named := a.named(st.Form)
	var w accounts.Wallet
	if st.Entry == "Wallet.SignHashWithPassphrase" || st.Entry == "Wallet.SignTxWithPassphrase" {
		if w = m.wallet(a); w == nil {
			ev.Add("generator/no-wallet", 1)
			return ""
		}
		if st.Form == "url" {
			named = a.acct // a wallet answers for its account by address
		}
	}
	var before []byte
	if a.live {
		before, _ = os.ReadFile(a.acct.URL.Path)
	}
	nlisted := len(m.ks.Accounts())
	state := a.state()
	timeout := time.Duration(st.Timeout)
	if timeout < 0 || (timeout > 0 && timeout < time.Hour) {
		timeout = time.Duration(longTimeout) // timeouts that could expire inside a case belong to the "brief" step
	}

	var sig, exported []byte
	var signed *types.Transaction
	var imported accounts.Account
	tx := txOf(hash)
	var f func() error
	switch st.Entry {
	case "Unlock":
		f = func() error { return m.ks.Unlock(named, pass) }
	case "TimedUnlock":
		f = func() error { return m.ks.TimedUnlock(named, pass, timeout) }
	case "SignHashWithPassphrase":
		f = func() (e error) { sig, e = m.ks.SignHashWithPassphrase(named, pass, hash); return }
	case "SignTxWithPassphrase":
		f = func() (e error) { signed, e = m.ks.SignTxWithPassphrase(named, pass, tx, chainID(st.Chain)); return }
	case "Wallet.SignHashWithPassphrase":
		f = func() (e error) { sig, e = w.SignHashWithPassphrase(named, pass, hash); return }
	case "Wallet.SignTxWithPassphrase":
		f = func() (e error) { signed, e = w.SignTxWithPassphrase(named, pass, tx, chainID(st.Chain)); return }
	case "Export":
		f = func() (e error) { exported, e = m.ks.Export(named, pass, np); return }
	case "Update":
		f = func() error { return m.ks.Update(named, pass, np) }
	case "Delete":
		f = func() error { return m.ks.Delete(named, pass) }
	case "Import":
		f = func() (e error) { imported, e = m.ks.Import(ex.json, pass, np); return }
	default:
		return ""
	}
	err, pv, pn := ksCall(f)
	if pn {
		return fmt.Sprintf("%s panicked in state %s: %s", st.Entry, state, pv)
	}

	if !expectOK {
		if err == nil {
			if !a.live {
				return fmt.Sprintf("%s succeeded for the deleted account %x (passphrase %q)", st.Entry, a.s.addr, pass)
			}
			return fmt.Sprintf("%s accepted passphrase %q for account %x whose key is stored under %q; account state: %s, named by %s%s",
				st.Entry, pass, a.s.addr, target, state, st.Form, importedNote(imported))
		}
		// a refused call changes nothing
		if a.live {
			now, _ := os.ReadFile(a.acct.URL.Path)
			if !bytes.Equal(now, before) {
				return fmt.Sprintf("%s with a refused passphrase changed or removed the key file (state %s)", st.Entry, state)
			}
		}
		if n := len(m.ks.Accounts()); n != nlisted {
			return fmt.Sprintf("%s with a refused passphrase changed the number of accounts from %d to %d", st.Entry, nlisted, n)
		}
		if a.live {
			ok, bad := m.canSign(a, hash)
			if bad != "" {
				return "after a refused " + st.Entry + ": " + bad
			}
			if ok && a.unlock == stLocked {
				return fmt.Sprintf("after %s with the refused passphrase %q the locked account signs without a passphrase", st.Entry, pass)
			}
			if !ok && a.unlock != stLocked {
				// a refusal that also locks the account is within the statement; follow it
				a.unlock, a.how = stLocked, "after-Lock"
				ev.Label("ksstate:locked-by-refused-call")
			}
			lbls := []string{"ksstate:wrong@" + state, "ksstate:" + st.Entry + "@" + state, "wrongpass:state-machine"}
			if len(a.old) > 0 {
				lbls = append(lbls, "ksstate:wrong@after-update")
			}
			if st.Rel != "" {
				lbls = append(lbls, "ksstate:wrongpass-"+st.Rel)
			}
			ev.Case(true, canon("ks-state", hex.EncodeToString(a.s.scalar), a.pass, state, st.Entry, pass), lbls...)
		} else {
			ev.Case(false, canon("ks-state-deleted", hex.EncodeToString(a.s.scalar), st.Entry, pass), "ksstate:deleted-account-refused")
		}
		return ""
	}

	// the right passphrase of a listed account
	if err != nil {
		return fmt.Sprintf("%s refused the right passphrase %q of account %x in state %s (named by %s): %v", st.Entry, pass, a.s.addr, state, st.Form, err)
	}
	ev.Label("ksstate:right@"+state, "ksstate:right-"+st.Entry)
	switch st.Entry {
	case "Unlock":
		a.unlock = stIndef
	case "TimedUnlock":
		if a.unlock != stIndef { // an indefinite unlock is not shortened
			if timeout > 0 {
				a.unlock = stTimed
			} else {
				a.unlock = stIndef
			}
		}
	case "SignHashWithPassphrase", "Wallet.SignHashWithPassphrase":
		if got, e := refRecover(hash, sig); e != nil || got != a.s.addr {
			return fmt.Sprintf("%s for account %x signs as %x (%v)", st.Entry, a.s.addr, got, e)
		}
	case "SignTxWithPassphrase", "Wallet.SignTxWithPassphrase":
		if from, e := txSender(signed, st.Chain); e != nil || from != a.s.addr {
			return fmt.Sprintf("%s: the transaction of account %x has sender %x (%v)", st.Entry, a.s.addr, from, e)
		}
	case "Export":
		if e := strictCheckID(exported, np, a.s, a.written); e != nil {
			return "Export: " + e.Error()
		}
		if len(a.exports) < 4 {
			a.exports = append(a.exports, ksExport{json: exported, pass: np})
		}
	case "Update":
		now, _ := os.ReadFile(a.acct.URL.Path)
		if e := strictCheckID(now, np, a.s, a.written); e != nil {
			return "Update: " + e.Error()
		}
		if np != a.pass {
			a.old = append(a.old, a.pass)
		}
		a.pass, a.written = np, true
	case "Delete":
		if _, e := os.Stat(a.acct.URL.Path); e == nil {
			return "Delete with the right passphrase left the key file in place"
		}
		if m.ks.HasAddress(a.acct.Address) {
			return "Delete with the right passphrase left the account listed"
		}
		a.live = false
		// the KeyStore keeps a deleted account's key unlocked; lock it so that
		// the model need not say anything about that
		m.ks.Lock(a.acct.Address)
		a.unlock, a.how = stLocked, "after-Lock"
		return ""
	}
	return m.settled(a, hash, "after "+st.Entry+" with the right passphrase")
}

func importedNote(a accounts.Account) string {
	if a.Address == (common.Address{}) {
		return ""
	}
	return fmt.Sprintf("; created account %x", a.Address)
}

// ---------- generator ----------

// otherPassphrases lists passphrases that are not the account's: near misses
// of the current one, its earlier ones, the ones of the other accounts of the
// same KeyStore, of files exported from it, and the empty one.
func otherPassphrases(t *rapid.T, m *ksMachine, a *ksAcct) (list []string, rel map[string]string) {
	rel = map[string]string{}
	add := func(p, r string) {
		if hmacEquivalent(p, a.pass) {
			return
		}
		if _, ok := rel[p]; !ok {
			rel[p] = r
		}
	}
	for _, p := range a.old {
		add(p, "old-passphrase")
	}
	for _, o := range m.accts {
		if o != a {
			add(o.pass, "other-account")
		}
	}
	for _, e := range a.exports {
		add(e.pass, "export-passphrase")
	}
	add("", "empty")
	for _, p := range nearMisses(t, a.pass, 3) {
		add(p, "near-miss")
	}
	for p := range rel {
		list = append(list, p)
	}
	sort.Strings(list)
	return
}

func drawOther(t *rapid.T, m *ksMachine, a *ksAcct) (string, string) {
	list, rel := otherPassphrases(t, m, a)
	// the passphrases with a history are few among many near misses: give them weight
	var special []string
	for _, p := range list {
		if rel[p] != "near-miss" {
			special = append(special, p)
		}
	}
	if len(special) > 0 && rapid.IntRange(0, 2).Draw(t, "special") == 0 {
		p := rapid.SampledFrom(special).Draw(t, "other")
		return p, rel[p]
	}
	p := rapid.SampledFrom(list).Draw(t, "other")
	return p, rel[p]
}

// drawNewPass draws the passphrase a key is re-encrypted under; now and then
// one the KeyStore has seen before (an earlier one, another account's).
func drawNewPass(t *rapid.T, m *ksMachine, a *ksAcct) string {
	if rapid.IntRange(0, 3).Draw(t, "reuse") == 0 {
		var pool []string
		pool = append(pool, a.old...)
		for _, o := range m.accts {
			pool = append(pool, o.pass)
		}
		return rapid.SampledFrom(pool).Draw(t, "reused")
	}
	return drawPass(t).s
}

func drawStateStep(t *rapid.T, m *ksMachine) ksStep {
	st := ksStep{Acct: rapid.IntRange(0, len(m.accts)-1).Draw(t, "acct")}
	a := m.accts[st.Acct]
	st.Form = rapid.SampledFrom([]string{"full", "full", "addr", "url"}).Draw(t, "form")
	st.Hash = hex.EncodeToString(rapid.SliceOfN(rapid.Byte(), 32, 32).Draw(t, "hash"))
	st.Chain = rapid.SampledFrom([]int64{0, 1, 61717561}).Draw(t, "chain")
	st.Export = rapid.IntRange(0, 3).Draw(t, "export")
	st.Timeout = rapid.SampledFrom([]int64{0, longTimeout, 2 * longTimeout}).Draw(t, "timeout")
	if !a.live {
		switch rapid.SampledFrom([]string{"restore", "restore", "call-other", "sweep"}).Draw(t, "op-deleted") {
		case "restore":
			st.Op = "restore"
			st.Entry = rapid.SampledFrom([]string{"Import", "ImportECDSA"}).Draw(t, "restore-by")
			st.NewPassHex = hx(drawNewPass(t, m, a))
			return st
		case "sweep":
			st.Op = "sweep"
		default:
			st.Op = "call"
			st.Entry = rapid.SampledFrom(ksEntries).Draw(t, "entry")
		}
		// no passphrase opens a deleted account, the last one included
		p, rel := drawOther(t, m, a)
		if st.Op == "call" && rapid.Bool().Draw(t, "last-passphrase") {
			p, rel = a.pass, "of-deleted-account"
		}
		st.PassHex, st.Rel, st.NewPassHex = hx(p), rel, hx("x")
		return st
	}
	op := rapid.SampledFrom([]string{"call-right", "call-right", "call-right", "call-right", "call-other", "call-other", "call-other",
		"sweep", "sweep", "lock", "lock", "probe", "brief"}).Draw(t, "op")
	switch op {
	case "call-right":
		st.Op = "call"
		// Delete is rarer: it ends the history of the file
		st.Entry = rapid.SampledFrom([]string{"Unlock", "Unlock", "TimedUnlock", "TimedUnlock", "TimedUnlock", "SignHashWithPassphrase", "SignTxWithPassphrase",
			"Wallet.SignHashWithPassphrase", "Wallet.SignTxWithPassphrase", "Export", "Export", "Update", "Update", "Update", "Delete"}).Draw(t, "entry")
		st.PassHex, st.NewPassHex = hx(a.pass), hx(drawNewPass(t, m, a))
	case "call-other":
		st.Op = "call"
		st.Entry = rapid.SampledFrom(ksEntries).Draw(t, "entry")
		p, rel := drawOther(t, m, a)
		if st.Entry == "Import" && len(a.exports) > 0 {
			// other than the passphrase of the exported file; the account's own is a good candidate
			ex := a.exports[st.Export%len(a.exports)]
			if rapid.Bool().Draw(t, "account-passphrase") && !hmacEquivalent(a.pass, ex.pass) {
				p, rel = a.pass, "account-passphrase-for-export"
			}
		}
		st.PassHex, st.Rel, st.NewPassHex = hx(p), rel, hx(drawNewPass(t, m, a))
	case "sweep":
		st.Op = "sweep"
		p, rel := drawOther(t, m, a)
		st.PassHex, st.Rel, st.NewPassHex = hx(p), rel, hx("x")
	default:
		st.Op = op
	}
	return st
}

// isTransition: a step after which the account may be in another state (each
// is followed by a sweep of all entry points with another passphrase).
func isTransition(st ksStep) bool {
	switch st.Op {
	case "lock", "brief", "restore":
		return true
	case "call":
		return st.Entry == "Unlock" || st.Entry == "TimedUnlock" || st.Entry == "Update"
	}
	return false
}

var statesFileKinds = []string{"ref-scrypt", "ref-pbkdf2", "ref-v1-scrypt", "ref-v1-pbkdf2"}

func TestKeyStoreStates(t *testing.T) {
	ev.Check(t, ev.N(150, 14_000), func(t *rapid.T) {
		tmp, err := os.MkdirTemp("", "c20s-")
		if err != nil {
			t.Fatalf("tmp: %v", err)
		}
		defer os.RemoveAll(tmp)
		sc := &ksScript{
			N: rapid.SampledFrom([]int{2, 2, 4, 16}).Draw(t, "ksN"),
			P: rapid.SampledFrom([]int{1, 1, 2}).Draw(t, "ksP"),
		}
		nacct := rapid.SampledFrom([]int{1, 2, 2, 3}).Draw(t, "accounts")
		seen := map[[20]byte]bool{}
		var setupLabels []string
		for i := 0; i < nacct; i++ {
			su := ksSetup{How: rapid.SampledFrom([]string{"ecdsa", "ecdsa", "new", "file"}).Draw(t, "how")}
			pw := drawPass(t)
			su.PassHex = hx(pw.s)
			setupLabels = append(setupLabels, pw.labels...)
			if su.How != "new" {
				scalar, kclass := drawScalar(t)
				s := newSubject(scalar)
				if seen[s.addr] {
					su.How = "new"
				} else {
					seen[s.addr] = true
					su.Scalar = hex.EncodeToString(s.scalar)
					setupLabels = append(setupLabels, kclass)
					if su.How == "file" {
						su.Kind = rapid.SampledFrom(statesFileKinds).Draw(t, "filekind")
						su.File = string(makeFile(t, s, pw.s, su.Kind).JSON())
						setupLabels = append(setupLabels, "ksstate:file-"+su.Kind)
					}
				}
			}
			setupLabels = append(setupLabels, "ksstate:setup-"+su.How)
			sc.Setup = append(sc.Setup, su)
		}
		c := replayCase{Kind: "ks-states", Script: sc}
		m, bad := newKSMachine(filepath.Join(tmp, "ks"), sc)
		if bad != "" {
			failCase(t, c, "set-up: %s", bad)
		}
		ev.Label(setupLabels...)
		run := func(st ksStep) {
			sc.Steps = append(sc.Steps, st)
			if bad := m.do(st); bad != "" {
				failCase(t, c, "step %d (%s %s on account %d): %s", len(sc.Steps)-1, st.Op, st.Entry, st.Acct, bad)
			}
		}
		steps := rapid.IntRange(6, ev.Pick(24, 40)).Draw(t, "steps")
		for i := 0; i < steps; i++ {
			st := drawStateStep(t, m)
			before := m.accts[st.Acct].state()
			run(st)
			a := m.accts[st.Acct]
			if isTransition(st) && a.live {
				p, rel := drawOther(t, m, a)
				sw := st
				sw.Op, sw.Entry, sw.PassHex, sw.Rel, sw.NewPassHex = "sweep", "", hx(p), rel, hx("x")
				sw.Form = rapid.SampledFrom([]string{"full", "addr", "url"}).Draw(t, "sweep-form")
				run(sw)
			}
			if after := m.accts[st.Acct].state(); after != before {
				ev.Label("ksstate:" + before + "->" + after)
			}
		}
		ev.Case(len(sc.Steps) > 8, canon("ks-states-script", fmt.Sprint(sc)), "ksstate:script")
		ev.Sample(map[string]interface{}{"action": "keystore-state-script", "accounts": len(sc.Setup), "steps": len(sc.Steps), "first_steps": firstSteps(sc, 6)})
	})
}

func firstSteps(sc *ksScript, n int) []string {
	var out []string
	for i, st := range sc.Steps {
		if i >= n {
			break
		}
		out = append(out, fmt.Sprintf("%s %s acct=%d pass=%q rel=%s", st.Op, st.Entry, st.Acct, unhex(st.PassHex), st.Rel))
	}
	return out
}

// replayStates re-executes a saved script.
func replayStates(t fataler, sc *ksScript) {
	tmp, err := os.MkdirTemp("", "c20sr-")
	if err != nil {
		t.Fatalf("tmp: %v", err)
	}
	defer os.RemoveAll(tmp)
	m, bad := newKSMachine(filepath.Join(tmp, "ks"), sc)
	if bad != "" {
		t.Fatalf("set-up: %s", bad)
	}
	for i, st := range sc.Steps {
		if bad := m.do(st); bad != "" {
			t.Fatalf("step %d (%s %s on account %d): %s", i, st.Op, st.Entry, st.Acct, bad)
		}
	}
}
