package c20

import (
	"bytes"
	"encoding/hex"
	"encoding/json"
	"fmt"
	"os"
	"path/filepath"
	"sort"
	"strings"
	"testing"

	"gitlab.com/aquachain/aquachain/aqua/accounts"
	"gitlab.com/aquachain/aquachain/aqua/accounts/keystore"
	"verifharness/ev"
)

// ---------- published vectors: validate the reference and the keystore on the same files ----------

type vector struct {
	name, file, pass, priv string
	heavy                  bool // scrypt N=262144: 256 MiB / 32 MiB, run in the thorough tier (shard 0) only
}

var vectors = []vector{
	{"very-light-scrypt", `{"address":"45dea0fb0bba44f4fcf290bba71fd57d7117cbb8","crypto":{"cipher":"aes-128-ctr","ciphertext":"b87781948a1befd247bff51ef4063f716cf6c2d3481163e9a8f42e1f9bb74145","cipherparams":{"iv":"dc4926b48a105133d2f16b96833abf1e"},"kdf":"scrypt","kdfparams":{"dklen":32,"n":2,"p":1,"r":8,"salt":"004244bbdc51cadda545b1cfa43cff9ed2ae88e08c61f1479dbb45410722f8f0"},"mac":"39990c1684557447940d4c69e06b1b82b2aceacb43f284df65c956daf3046b85"},"id":"ce541d8d-c79b-40f8-9f8c-20f59616faba","version":3}`, "", "", false},
	{"wiki-pbkdf2", `{"crypto":{"cipher":"aes-128-ctr","cipherparams":{"iv":"6087dab2f9fdbbfaddc31a909735c1e6"},"ciphertext":"5318b4d5bcd28de64ee5559e671353e16f075ecae9f99c7a79a38af5f869aa46","kdf":"pbkdf2","kdfparams":{"c":262144,"dklen":32,"prf":"hmac-sha256","salt":"ae3cd4e7013836a3df6bd7241b12db061dbe2c6785853cce422d148a624ce0bd"},"mac":"517ead924a9d0dc3124507e3393d175ce3ff7c1e96529c6c555ce9e51205e9b2"},"id":"3198bc9c-6672-5ab3-d995-4942343ae5b6","version":3}`, "testpassword", "7a28b5ba57c53603b0b07b56bba752f7784bf506fa95edc395f5cf6c7514fe9d", false},
	{"31-byte-key", `{"crypto":{"cipher":"aes-128-ctr","cipherparams":{"iv":"e0c41130a323adc1446fc82f724bca2f"},"ciphertext":"9517cd5bdbe69076f9bf5057248c6c050141e970efa36ce53692d5d59a3984","kdf":"scrypt","kdfparams":{"dklen":32,"n":2,"r":8,"p":1,"salt":"711f816911c92d649fb4c84b047915679933555030b3552c1212609b38208c63"},"mac":"d5e116151c6aa71470e67a7d42c9620c75c4d23229847dcc127794f0732b0db5"},"id":"fecfc4ce-e956-48fd-953b-30f8b52ed66c","version":3}`, "foo", "fa7b3db73dc7dfdf8c5fbdb796d741e4488628c41fc4febd9160a866ba0f35", false},
	{"30-byte-key", `{"crypto":{"cipher":"aes-128-ctr","cipherparams":{"iv":"3ca92af36ad7c2cd92454c59cea5ef00"},"ciphertext":"108b7d34f3442fc26ab1ab90ca91476ba6bfa8c00975a49ef9051dc675aa","kdf":"scrypt","kdfparams":{"dklen":32,"n":2,"r":8,"p":1,"salt":"d0769e608fb86cda848065642a9c6fa046845c928175662b8e356c77f914cd3b"},"mac":"75d0e6759f7b3cefa319c3be41680ab6beea7d8328653474bd06706d4cc67420"},"id":"a37e1559-5955-450d-8075-7b8931b392b2","version":3}`, "foo", "81c29e8142bb6a81bef5a92bda7a8328a5c85bb2f9542e76f9b0f94fc018", false},
	{"wiki-scrypt", `{"crypto":{"cipher":"aes-128-ctr","cipherparams":{"iv":"83dbcc02d8ccb40e466191a123791e0e"},"ciphertext":"d172bf743a674da9cdad04534d56926ef8358534d458fffccd4e6ad2fbde479c","kdf":"scrypt","kdfparams":{"dklen":32,"n":262144,"r":1,"p":8,"salt":"ab0c7876052600dd703518d6fc3fe8984592145b591fc8fb5c6d43190334ba19"},"mac":"2103ac29920d71da29f15d75b4a16dbe95cfd7ff8faea1056c33131d846e3097"},"id":"3198bc9c-6672-5ab3-d995-4942343ae5b6","version":3}`, "testpassword", "7a28b5ba57c53603b0b07b56bba752f7784bf506fa95edc395f5cf6c7514fe9d", true},
	{"v1", `{"Crypto":{"cipher":"aes-128-cbc","cipherparams":{"iv":"35337770fc2117994ecdcad026bccff4"},"ciphertext":"6143d3192db8b66eabd693d9c4e414dcfaee52abda451af79ccf474dafb35f1bfc7ea013aa9d2ee35969a1a2e8d752d0","kdf":"scrypt","kdfparams":{"dklen":32,"n":262144,"p":1,"r":8,"salt":"9afcddebca541253a2f4053391c673ff9fe23097cd8555d149d929e4ccf1257f"},"mac":"3f3d5af884b17a100b0b3232c0636c230a54dc2ac8d986227219b0dd89197644","version":"1"},"address":"cb61d5a9c4896fb9658090b597ef0e7be6f7b67e","id":"e25f7c1f-d318-4f29-b62c-687190d4d299","version":"1"}`, "g", "d1b1178d3529626a1a93e073f65028370d14c7eb0936eb42abef05db6f37ad7d", true},
}

func TestPublishedVectors(t *testing.T) {
	for _, v := range vectors {
		if v.heavy && !(ev.Thorough() && ev.Shard() == 0) {
			continue
		}
		sc, err := refDecryptLenient([]byte(v.file), v.pass)
		if err != nil {
			t.Fatalf("%s: the reference reader fails on a published vector: %v", v.name, err)
		}
		if v.priv != "" {
			want, _ := hex.DecodeString(v.priv)
			if !bytes.Equal(sc, pad32(want)) {
				t.Fatalf("%s: the reference reader yields %x, published %s", v.name, sc, v.priv)
			}
		}
		s := newSubject(sc)
		if v.name == "very-light-scrypt" && s.addrHex() != "45dea0fb0bba44f4fcf290bba71fd57d7117cbb8" {
			t.Fatalf("reference address derivation: %s", s.addrHex())
		}
		if v.name == "v1" && s.addrHex() != "cb61d5a9c4896fb9658090b597ef0e7be6f7b67e" {
			t.Fatalf("reference address derivation (v1): %s", s.addrHex())
		}
		c := replayCase{Kind: "vector:" + v.name, Scalar: hex.EncodeToString(sc), PassHex: hex.EncodeToString([]byte(v.pass)), File: v.file}
		if verdict, bad := s.judge(decrypt([]byte(v.file), v.pass)); verdict != "original" {
			failCase(t, c, "published vector not decrypted to its key: %s %s", verdict, bad)
		}
		if o := decrypt([]byte(v.file), v.pass+"x"); o.err == nil || o.panicked {
			c.Wrong = true
			failCase(t, c, "published vector decrypted with a wrong passphrase")
		}
		kdf := "kdf:scrypt"
		if strings.Contains(v.file, "pbkdf2") {
			kdf = "kdf:pbkdf2"
		}
		ev.Case(true, canon("vector", v.name), "vector:published", kdf)
	}
}

// ---------- exhaustive single alterations of fixed files ----------

type fixedFile struct {
	name    string
	s       subject
	pass    string
	root    *node
	hasAddr bool
}

func fixedSalt(i int) []byte { return keccak([]byte{byte(i), 's'}) }
func fixedIV(i int) []byte   { return keccak([]byte{byte(i), 'i'})[:16] }

func fixedFiles(t fataler, count int) []fixedFile {
	scalars := []string{
		"00a7b37aa6f6645917e7b807e9d1c00d4fa71f18343b0d4122a4d2df64dd6fee", // one leading zero byte
		"0000c71a67e1177ad4e901695e1b4b9ee17ae16c6668d313eac2f96dbcda3f29", // two
		"fffffffffffffffffffffffffffffffebaaedce6af48a03bbfd25e8cd0364140", // n-1
		"8a1f9a8f95be41cd7ccb6168179afb4504aefe388d1e14474d32c45c72ce7b7a",
	}
	passes := []string{"", "correct horse", "pa\x00ss", "sésame", strings.Repeat("0123456789", 20)}
	var out []fixedFile
	for i := 0; i < count; i++ {
		sc, _ := hex.DecodeString(scalars[i%len(scalars)])
		if i >= len(scalars) {
			sc = keccak([]byte{byte(i)}, sc)
			sc[0] = 0
		}
		s := newSubject(sc)
		pass := passes[i%len(passes)]
		var root *node
		var err error
		var name string
		switch i % 5 {
		case 0:
			name = "enc"
			root, err = encryptChecked(s, pass, 2, 1)
		case 1:
			name = "ref-pbkdf2"
			root, err = buildV3(s.scalar, pass, kdfSpec{Kind: "pbkdf2", C: 1 + i/5, DKLen: 32, Salt: fixedSalt(i)}, fixedIV(i), s.addrHex(), testUUID)
		case 2:
			name = "ref-v1-scrypt"
			root, err = buildV1(s.scalar, pass, kdfSpec{Kind: "scrypt", N: 2, R: 8, P: 1, DKLen: 32, Salt: fixedSalt(i)}, fixedIV(i), s.addrHex(), testUUID)
		case 3:
			name = "ref-short"
			root, err = buildV3(bytes.TrimLeft(s.scalar, "\x00"), pass, kdfSpec{Kind: "scrypt", N: 4, R: 1, P: 2, DKLen: 64, Salt: fixedSalt(i)}, fixedIV(i), s.addrHex(), testUUID)
		case 4:
			name = "ref-v1-pbkdf2"
			root, err = buildV1(s.scalar, pass, kdfSpec{Kind: "pbkdf2", C: 3, DKLen: 48, Salt: fixedSalt(i)}, fixedIV(i), s.addrHex(), testUUID)
		}
		if err != nil {
			t.Fatalf("fixed file %d: %v", i, err)
		}
		out = append(out, fixedFile{name: fmt.Sprintf("%s#%d", name, i), s: s, pass: pass, root: root, hasAddr: true})
	}
	return out
}

func TestExhaustiveAlterations(t *testing.T) {
	files := fixedFiles(t, ev.Pick(5, 40))
	shard, nsh := ev.Shard(), ev.NShards()
	idx := 0
	for _, ff := range files {
		origIV, _ := hex.DecodeString(ff.root.get("iv"))
		base := replayCase{Kind: ff.name, Scalar: hex.EncodeToString(ff.s.scalar), PassHex: hex.EncodeToString([]byte(ff.pass)), OrigIV: ff.root.get("iv")}
		if v, bad := ff.s.judge(decrypt(ff.root.JSON(), ff.pass)); v != "original" {
			base.File = string(ff.root.JSON())
			failCase(t, base, "fixed file does not round-trip: %s %s", v, bad)
		}
		for _, f := range tamperFields {
			for _, tm := range allTampers(ff.root, f, !ev.Thorough()) {
				idx++
				if idx%nsh != shard {
					continue
				}
				alt := tm.apply(ff.root)
				if alt == nil {
					continue
				}
				af := alt.JSON()
				verdict, bad := checkAltered(ff.s, ff.pass, af, origIV, ff.hasAddr, workLimit)
				if bad != "" {
					c := base
					c.File, c.Tamper = string(af), tm.String()
					failCase(t, c, "altered file (%s): %s", tm, bad)
				}
				sh := shapeOf(af)
				ev.Case(sh.Parses && sh.Complete, canon("ex", ff.name, tm.String()), "field:"+f, "op:"+tm.Op, verdictLabel(verdict), "exhaustive")
				if verdict == "original" {
					ev.Label("accepted-original:" + tm.Field)
				}
			}
		}
		// every wrong passphrase at edit distance 1 over a small byte alphabet
		for _, w := range allNearMisses(ff.pass) {
			idx++
			if idx%nsh != shard {
				continue
			}
			if o := decrypt(ff.root.JSON(), w); o.err == nil || o.panicked {
				c := base
				c.File, c.Wrong, c.PassHex = string(ff.root.JSON()), true, hex.EncodeToString([]byte(w))
				failCase(t, c, "passphrase %q at edit distance 1 from %q was not rejected", w, ff.pass)
			}
			ev.Case(true, canon("ex-wp", ff.name, w), "wrongpass:near-miss", "exhaustive")
		}
	}
	insNote := ""
	if !ev.Thorough() {
		insNote = fmt.Sprintf(" (insertions into the long hex members: alphabet %q)", insertAlphabetLong)
	}
	ev.Exhaustive(fmt.Sprintf("every single-character replacement/insertion (alphabet %q)"+insNote+", deletion, type change and removal of each of the 15 members of %d fixed key files (EncryptKey, pbkdf2 v3, scrypt v1, short-ciphertext v3, pbkdf2 v1), and every passphrase at byte edit distance 1 over a 12-byte alphabet", alphabet, len(files)))
}

func allNearMisses(p string) []string {
	alpha := []byte{0x00, ' ', '\n', '0', 'a', 'A', 'z', 0x7f, 0x80, 0xc3, 0xa9, 0xff}
	set := map[string]bool{}
	for i := 0; i <= len(p); i++ {
		for _, c := range alpha {
			set[p[:i]+string([]byte{c})+p[i:]] = true
			if i < len(p) {
				set[p[:i]+string([]byte{c})+p[i+1:]] = true
			}
		}
		if i < len(p) {
			set[p[:i]+p[i+1:]] = true
			set[p[:i]+string([]byte{p[i] ^ 1})+p[i+1:]] = true
			set[p[:i]+string([]byte{p[i] ^ 0x20})+p[i+1:]] = true
		}
	}
	for w := range set {
		if hmacEquivalent(w, p) {
			delete(set, w)
		}
	}
	out := make([]string, 0, len(set))
	for s := range set {
		out = append(out, s)
	}
	sort.Strings(out)
	return out
}

// ---------- fixed witnesses of the listed findings ----------

type witness struct {
	key    string
	tamper tamper
	what   string
}

var witnesses = []witness{
	{kIV, tamper{Field: "iv", Op: "repl", Pos: 0, Ch: "e"}, "first hex digit of the iv changed d -> e"},
	{kType, tamper{Field: "salt", Op: "type", Alt: "12345"}, "salt is the number 12345"},
	{kType, tamper{Field: "n", Op: "remove"}, "n removed"},
	{kType, tamper{Field: "dklen", Op: "type", Alt: "flip"}, "dklen is the string \"32\""},
	{kDKLen, tamper{Field: "dklen", Op: "ins", Pos: 0, Ch: "-"}, "dklen 32 -> -32"},
	{kDKLen, tamper{Field: "dklen", Op: "type", Alt: "0"}, "dklen 32 -> 0"},
	{kZero, tamper{Field: "r", Op: "repl", Pos: 0, Ch: "0"}, "r 8 -> 0"},
	{kZero, tamper{Field: "p", Op: "repl", Pos: 0, Ch: "0"}, "p 1 -> 0"},
	{kIVLen, tamper{Field: "iv", Op: "remove"}, "iv removed"},
	{kIVLen, tamper{Field: "iv", Op: "type", Alt: "\"\""}, "iv is the empty string"},
}

// cbcWitness: the published 31-byte-key vector with its version rewritten to "1".
func cbcWitness() (subject, []byte, string) {
	v := vectors[2]
	sc, _ := hex.DecodeString(v.priv)
	return newSubject(sc), []byte(strings.Replace(v.file, `"version":3`, `"version":"1"`, 1)), v.pass
}

func witnessBase() (subject, *node, string) {
	v := vectors[0]
	sc, err := refDecryptLenient([]byte(v.file), v.pass)
	if err != nil {
		panic(err)
	}
	root, err := fromJSON([]byte(v.file))
	if err != nil {
		panic(err)
	}
	return newSubject(sc), root, v.pass
}

func TestKnownFindingWitnesses(t *testing.T) {
	{
		s, file, pass := cbcWitness()
		_, bad := s.judge(decrypt(file, pass))
		t.Logf("witness %s: %s", kCBC, bad)
		if bad != "" && ev.Known(kCBC) {
			ev.KnownFinding(kCBC)
		} else if bad != "" {
			failCase(t, replayCase{Kind: "witness:" + kCBC, Scalar: hex.EncodeToString(s.scalar), PassHex: hex.EncodeToString([]byte(pass)), File: string(file)}, "witness for %s: %s", kCBC, bad)
		}
		ev.Case(true, canon("witness", kCBC), "witness")
	}
	s, root, pass := witnessBase()
	tmp, err := os.MkdirTemp("", "c20w-")
	if err != nil {
		t.Fatal(err)
	}
	defer os.RemoveAll(tmp)
	for i, w := range witnesses {
		alt := w.tamper.apply(root)
		if alt == nil {
			t.Fatalf("witness %d does not apply", i)
		}
		af := alt.JSON()
		c := replayCase{Kind: "witness:" + w.key, Scalar: hex.EncodeToString(s.scalar), PassHex: hex.EncodeToString([]byte(pass)), File: string(af), OrigIV: root.get("iv"), Tamper: w.tamper.String()}
		_, bad := s.judge(decrypt(af, pass))
		// the same file through KeyStore.Import
		ks := keystore.NewKeyStore(filepath.Join(tmp, fmt.Sprint(i)), 2, 1)
		var ia accounts.Account
		ierr, pv, pn := ksCall(func() (e error) { ia, e = ks.Import(af, pass, pass); return })
		if bad == "" {
			if pn {
				bad = "Import panicked: " + pv
			} else if ierr == nil && !bytes.Equal(ia.Address[:], s.addr[:]) {
				bad = fmt.Sprintf("Import created account %x, original %x", ia.Address, s.addr)
			}
		}
		t.Logf("witness %s (%s): %s", w.key, w.what, map[bool]string{true: "holds (error or original key)", false: bad}[bad == ""])
		switch {
		case bad != "" && ev.Known(w.key):
			ev.KnownFinding(w.key)
		case bad != "":
			failCase(t, c, "witness for %s (%s): %s", w.key, w.what, bad)
		}
		ev.Case(true, canon("witness", w.key, w.tamper.String()), "witness")
	}
}

// ---------- replay of saved cases and of the corpus ----------

// replayOne re-runs every level of the check on one saved case.
func replayOne(t fataler, c replayCase) {
	if c.Kind == "ks-states" {
		if c.Script == nil {
			t.Fatalf("ks-states replay case without script")
		}
		replayStates(t, c.Script)
		return
	}
	sc, err := hex.DecodeString(c.Scalar)
	if err != nil || len(sc) == 0 {
		t.Fatalf("replay case without scalar")
	}
	s := newSubject(sc)
	pass := mustUnhex(c.PassHex)
	file := []byte(c.File)
	if c.Wrong {
		if o := decrypt(file, pass); o.err == nil || o.panicked {
			t.Fatalf("wrong passphrase %q not rejected (panic=%v %s)", pass, o.panicked, o.panicVal)
		}
		return
	}
	var origIV []byte
	if c.OrigIV != "" {
		origIV, _ = hex.DecodeString(c.OrigIV)
	}
	sh := shapeOf(file)
	hasAddr := sh.Address != "" || origIV != nil
	if _, bad := checkAltered(s, pass, file, origIV, hasAddr, workLimit); bad != "" {
		t.Fatalf("DecryptKey: %s\n  tamper=%s file=%s", bad, c.Tamper, c.File)
	}
	if sh.tooExpensive(workLimit) {
		return
	}
	shapeKey := knownShape(sh, origIV, hasAddr)
	if shapeKey != "" && shapeKey != kIV && ev.Known(shapeKey) {
		return
	}
	tmp, err := os.MkdirTemp("", "c20r-")
	if err != nil {
		t.Fatalf("tmp: %v", err)
	}
	defer os.RemoveAll(tmp)
	hash := keccak([]byte("replay"))
	ks := keystore.NewKeyStore(filepath.Join(tmp, "a"), 2, 1)
	a, err := ks.ImportECDSA(s.priv(), pass)
	if err != nil {
		t.Fatalf("ImportECDSA: %v", err)
	}
	os.WriteFile(a.URL.Path, file, 0o600)
	if _, bad := ksOps(ks, a, s, pass, hash, false); bad != "" {
		t.Fatalf("running KeyStore: %s\n  tamper=%s file=%s", bad, c.Tamper, c.File)
	}
	dir := filepath.Join(tmp, "r")
	os.MkdirAll(dir, 0o700)
	os.WriteFile(filepath.Join(dir, "UTC--replay"), file, 0o600)
	ksr := keystore.NewKeyStore(dir, 2, 1)
	for _, la := range ksr.Accounts() {
		ls := s
		if !bytes.Equal(la.Address[:], s.addr[:]) {
			ls = subject{scalar: s.scalar}
			copy(ls.addr[:], la.Address[:])
		}
		if acc, bad := ksOps(ksr, la, ls, pass, hash, false); bad != "" || (acc != 0 && ls.addr != s.addr) {
			t.Fatalf("rescanned KeyStore: %d accepted; %s\n  tamper=%s file=%s", acc, bad, c.Tamper, c.File)
		}
	}
	if shapeKey == kIV && (ev.Known(kIV) || !hasAddr) {
		return
	}
	ksi := keystore.NewKeyStore(filepath.Join(tmp, "i"), 2, 1)
	var ia accounts.Account
	ierr, pv, pn := ksCall(func() (e error) { ia, e = ksi.Import(file, pass, pass); return })
	if pn {
		t.Fatalf("Import panicked: %s\n  file=%s", pv, c.File)
	}
	if ierr == nil && !bytes.Equal(ia.Address[:], s.addr[:]) {
		t.Fatalf("Import created account %x, original %x\n  file=%s", ia.Address, s.addr, c.File)
	}
}

func TestCorpusReplay(t *testing.T) {
	dir := os.Getenv("VERIF_CORPUS")
	ents, _ := os.ReadDir(dir)
	for _, e := range ents {
		if !strings.HasSuffix(e.Name(), ".json") {
			continue
		}
		b, err := os.ReadFile(filepath.Join(dir, e.Name()))
		if err != nil {
			continue
		}
		var c replayCase
		if err := json.Unmarshal(b, &c); err != nil {
			t.Fatalf("corpus file %s: %v", e.Name(), err)
		}
		t.Run(e.Name(), func(t *testing.T) { replayOne(t, c) })
		ev.Case(true, canon("corpus", e.Name()), "corpus")
	}
}

func TestReplay(t *testing.T) {
	p := ev.ReplayPath()
	if p == "" {
		t.Skip("no VERIF_REPLAY")
	}
	b, err := os.ReadFile(p)
	if err != nil {
		t.Fatal(err)
	}
	var c replayCase
	if err := json.Unmarshal(b, &c); err != nil {
		t.Fatalf("replay file: %v", err)
	}
	replayOne(t, c)
}

// TestWriteCorpus (maintenance, off by default) regenerates corpus/C20.
func TestWriteCorpus(t *testing.T) {
	dir := os.Getenv("VERIF_C20_WRITE_CORPUS")
	if dir == "" {
		t.Skip("maintenance only")
	}
	os.MkdirAll(dir, 0o755)
	s, root, pass := witnessBase()
	put := func(name string, c replayCase) {
		b, _ := json.MarshalIndent(c, "", " ")
		if err := os.WriteFile(filepath.Join(dir, name+".json"), b, 0o644); err != nil {
			t.Fatal(err)
		}
	}
	for i, w := range witnesses {
		c := replayCase{Kind: "witness:" + w.key, Scalar: hex.EncodeToString(s.scalar), PassHex: hex.EncodeToString([]byte(pass)),
			File: string(w.tamper.apply(root).JSON()), OrigIV: root.get("iv"), Tamper: w.tamper.String(), Message: w.what}
		put(fmt.Sprintf("witness-%d-%s", i, strings.ReplaceAll(w.key, "/", "-")), c)
	}
	{
		cs, cf, cp := cbcWitness()
		put("witness-cbc-not-full-blocks", replayCase{Kind: "witness:" + kCBC, Scalar: hex.EncodeToString(cs.scalar), PassHex: hex.EncodeToString([]byte(cp)), File: string(cf)})
	}
	extra := []tamper{
		{Field: "address", Op: "repl", Pos: 0, Ch: "5"}, {Field: "mac", Op: "repl", Pos: 63, Ch: "4"}, {Field: "ciphertext", Op: "repl", Pos: 0, Ch: "c"},
		{Field: "salt", Op: "repl", Pos: 5, Ch: "5"}, {Field: "dklen", Op: "ins", Pos: 2, Ch: "0"}, {Field: "dklen", Op: "type", Alt: "-1"},
		{Field: "r", Op: "type", Alt: "null"}, {Field: "kdf", Op: "type", Alt: "\"pbkdf2\""}, {Field: "version", Op: "type", Alt: "\"1\""},
		{Field: "cipher", Op: "remove"}, {Field: "p", Op: "type", Alt: "1e3"}, {Field: "iv", Op: "del", Pos: 0}, {Field: "iv", Op: "ins", Pos: 32, Ch: "0"},
		{Field: "iv", Op: "repl", Pos: 0, Ch: "D"}, {Field: "id", Op: "remove"}, {Field: "n", Op: "type", Alt: "1.5"},
	}
	for i, tm := range extra {
		put(fmt.Sprintf("alter-%02d", i), replayCase{Kind: "alter", Scalar: hex.EncodeToString(s.scalar), PassHex: hex.EncodeToString([]byte(pass)),
			File: string(tm.apply(root).JSON()), OrigIV: root.get("iv"), Tamper: tm.String()})
	}
	for _, v := range vectors {
		if v.heavy || v.priv == "" {
			continue
		}
		sc, _ := hex.DecodeString(v.priv)
		put("vector-"+v.name, replayCase{Kind: "vector", Scalar: hex.EncodeToString(pad32(sc)), PassHex: hex.EncodeToString([]byte(v.pass)), File: v.file})
		put("vector-"+v.name+"-wrongpass", replayCase{Kind: "vector", Scalar: hex.EncodeToString(pad32(sc)), PassHex: hex.EncodeToString([]byte(v.pass + " ")), File: v.file, Wrong: true})
	}
}

// ---------- native fuzzing over the bytes of the key file ----------

const fuzzPass = "correct horse\x00é"

type fuzzSeed struct {
	s      subject
	root   *node
	ct, iv string
	v1     bool
}

func fuzzSeeds(t fataler) []fuzzSeed {
	var out []fuzzSeed
	for i, ff := range fixedFilesWithPass(t, 10, fuzzPass) {
		_ = i
		out = append(out, fuzzSeed{s: ff.s, root: ff.root, ct: strings.ToLower(ff.root.get("ciphertext")), iv: ff.root.get("iv"), v1: ff.root.get("version") == "1"})
	}
	return out
}

// fixedFilesWithPass builds deterministic files (reference writer only, so that
// salts and IVs are fixed) all under one passphrase.
func fixedFilesWithPass(t fataler, count int, pass string) []fixedFile {
	files := fixedFiles(t, count)
	for i := range files {
		ff := &files[i]
		var err error
		if strings.HasPrefix(ff.name, "enc") {
			ff.root, err = buildV3(ff.s.scalar, pass, kdfSpec{Kind: "scrypt", N: 2, R: 8, P: 1, DKLen: 32, Salt: fixedSalt(100 + i)}, fixedIV(100+i), ff.s.addrHex(), testUUID)
		} else {
			k := kdfFromFile(ff.root)
			stored := ff.s.scalar
			if strings.HasPrefix(ff.name, "ref-short") {
				stored = bytes.TrimLeft(stored, "\x00")
			}
			iv, _ := hex.DecodeString(ff.root.get("iv"))
			if ff.root.get("version") == "1" {
				ff.root, err = buildV1(stored, pass, k, iv, ff.s.addrHex(), testUUID)
			} else {
				ff.root, err = buildV3(stored, pass, k, iv, ff.s.addrHex(), testUUID)
			}
		}
		if err != nil {
			t.Fatalf("seed %d: %v", i, err)
		}
		ff.pass = pass
	}
	return files
}

func kdfFromFile(root *node) kdfSpec {
	atoi := func(k string) int { n := 0; fmt.Sscan(root.get(k), &n); return n }
	salt, _ := hex.DecodeString(root.get("salt"))
	return kdfSpec{Kind: root.get("kdf"), N: atoi("n"), R: atoi("r"), P: atoi("p"), C: atoi("c"), DKLen: atoi("dklen"), Salt: salt}
}

// fuzzOracle is oracle (iii) for arbitrary bytes: with the seeds' passphrase
// the keystore either fails or returns the key of the seed whose ciphertext
// and MAC the input still carries.
func fuzzOracle(t fataler, seeds []fuzzSeed, in []byte) {
	sh := shapeOf(in)
	if sh.tooExpensive(fuzzWorkLimit) {
		return
	}
	var seed *fuzzSeed
	ct := strings.ToLower(sh.Crypto.CipherText)
	for i := range seeds {
		if seeds[i].ct == ct {
			seed = &seeds[i]
		}
	}
	var origIV []byte
	if seed != nil {
		origIV, _ = hex.DecodeString(seed.iv)
	}
	shapeKey := knownShape(sh, origIV, true)
	if shapeKey != "" && shapeKey != kIV && ev.Known(shapeKey) {
		return
	}
	o := decrypt(in, fuzzPass)
	if o.panicked {
		t.Fatalf("DecryptKey panicked: %s\ninput: %q", o.panicVal, in)
	}
	if o.err != nil {
		return
	}
	if seed == nil {
		t.Fatalf("DecryptKey accepted a file whose ciphertext is none of the seeds' (MAC forged?): key %x\ninput: %q", o.key.PrivateKey.Serialize(), in)
	}
	if v, bad := seed.s.judge(o); v != "original" {
		switch {
		case sh.V1 != seed.v1:
			// version switched between 3 and "1": not among the members the property lists; noted in FINDINGS.md
			return
		case shapeKey == kIV && (ev.Known(kIV) || sh.Address == ""):
			// listed finding, or an address-less file whose IV the format cannot authenticate
			return
		}
		t.Fatalf("%s\ninput: %q", bad, in)
	}
}

func FuzzDecryptJSON(f *testing.F) {
	seeds := fuzzSeeds(f)
	for _, s := range seeds {
		f.Add(s.root.JSON())
		for _, tm := range []tamper{{Field: "iv", Op: "repl", Pos: 3, Ch: "0"}, {Field: "dklen", Op: "type", Alt: "16"}, {Field: "salt", Op: "type", Alt: "null"},
			{Field: "iv", Op: "remove"}, {Field: "address", Op: "remove"}, {Field: "mac", Op: "repl", Pos: 1, Ch: "f"}, {Field: "version", Op: "type", Alt: "\"1\""}} {
			if alt := tm.apply(s.root); alt != nil {
				f.Add(alt.JSON())
			}
		}
	}
	f.Add([]byte(`{"version":"1","crypto":null}`))
	f.Add([]byte(`{"version":3,"crypto":{"cipher":"aes-128-ctr","kdfparams":null}}`))
	f.Fuzz(func(t *testing.T, in []byte) {
		if len(in) > 4096 {
			return
		}
		fuzzOracle(t, seeds, in)
	})
}
