// C20 — Keystore encryption round-trips and rejects wrong passphrases and tampering.
//
// Oracles (all independent of the keystore, see ref.go):
//
//	(i)   round trip: the key comes back as the same 32-byte scalar with the
//	      address keccak(pubkey)[12:]; files the keystore writes are decrypted by
//	      a strict independent reader of the Web3 Secret Storage definition;
//	      files written by the independent writer (scrypt / pbkdf2, v3 / v1,
//	      short legacy ciphertext) are read by the keystore; a signature made
//	      after Unlock recovers to the address.
//	(ii)  every other passphrase => error.
//	(iii) every altered file => error or the ORIGINAL key; never another key or
//	      address, never a panic; at DecryptKey and at KeyStore level.
package c20

import (
	"bytes"
	"encoding/hex"
	"fmt"
	"runtime"
	"runtime/debug"
	"sort"
	"strings"
	"testing"

	"github.com/btcsuite/btcd/btcec/v2"
	"gitlab.com/aquachain/aquachain/aqua/accounts/keystore"
	"gitlab.com/aquachain/aquachain/common/log"
	"pgregory.net/rapid"
	"verifharness/ev"
)

const (
	kIV    = "iv-tamper-different-key"
	kType  = "kdfparams-panic/type"
	kDKLen = "kdfparams-panic/dklen-nonpositive"
	kIVLen = "kdfparams-panic/iv-length"
	kZero  = "kdfparams-panic/scrypt-zero-r-or-p"
	kCBC   = "cipher-panic/cbc-not-full-blocks"

	workLimit     = 1 << 15 // block mixes / HMAC rounds allowed for a tampered file (~15 ms)
	fuzzWorkLimit = 1 << 12
)

func TestMain(m *testing.M) {
	// every test here is sequential; more Ps only add GC/scheduler contention
	// between the shard (and fuzz worker) processes
	runtime.GOMAXPROCS(2)
	debug.SetGCPercent(1000) // tiny live heap, high churn: fewer collections, less madvise traffic
	log.Root().SetHandler(log.DiscardHandler())
	must := []string{"kdf:scrypt", "kdf:pbkdf2", "format:v3", "format:v1", "format:v3-short-ciphertext", "format:presale",
		"source:EncryptKey", "source:reference", "key:lead-zero-1", "key:lead-zero-2", "key:near-n", "key:small",
		"pass:empty", "pass:ascii", "pass:long", "pass:non-ascii", "pass:nul", "wrongpass:near-miss", "wrongpass:nfc-nfd",
		"tamper:rejected", "tamper:accepted-original", "op:repl", "op:del", "op:ins", "op:type", "op:remove",
		"api:EncryptKey", "api:DecryptKey", "api:NewAccount", "api:ImportECDSA", "api:Import", "api:Export", "api:Update",
		"api:Unlock", "api:SignHash", "api:SignHashWithPassphrase", "api:plain",
		"ks:tamper-running", "ks:tamper-rescan", "ks:swap-attack", "ks:iv-tamper-caught-by-GetKey", "vector:published",
		// another passphrase offered to an account in each state of a running KeyStore (c20_state_test.go)
		"ksstate:wrong@locked-fresh", "ksstate:wrong@unlocked-indefinitely", "ksstate:wrong@unlocked-timed",
		"ksstate:wrong@locked-after-Lock", "ksstate:wrong@locked-after-expiry", "ksstate:wrong@after-update",
		"ksstate:wrongpass-old-passphrase", "ksstate:wrongpass-other-account", "ksstate:deleted-account-refused"}
	for _, st := range []string{"locked-fresh", "unlocked-indefinitely", "unlocked-timed", "locked-after-Lock"} {
		for _, e := range ksEntries {
			if e != "Import" { // Import needs a file exported earlier in the same script: counted, not demanded per state
				must = append(must, "ksstate:"+e+"@"+st)
			}
		}
	}
	for _, f := range tamperFields {
		must = append(must, "field:"+f)
	}
	ev.MustHit(must...)
	ev.Main(m, ev.Config{
		Property: "C20",
		Level:    "exploration",
		Rule: "a case = one evaluation of an oracle on (key, passphrase, file kind, action): a round trip, a wrong passphrase, or one altered file. " +
			"Keys: scalars with 1 and 2 leading zero bytes, small, near the group order, uniform. Passphrases: empty, ASCII, 200 bytes, NFC/NFD pairs, embedded NUL, arbitrary bytes; wrong passphrases at edit distance 1 (substitution, deletion, insertion at every position of short ones). " +
			"Files: written by EncryptKey/ImportECDSA/NewAccount/Update/Export (scrypt N in {2,4,8,16}) and by an independent writer (scrypt, pbkdf2, v3, v1, 31/30-byte ciphertext, presale). " +
			"Alterations: per member (ciphertext, mac, iv, salt, n, r, p, dklen, c, prf, kdf, cipher, version, address, id) one character replaced / deleted / inserted (30-character alphabet), JSON type changed, member removed; " +
			"sampled per generated file and enumerated completely for fixed files; at KeyStore level additionally a swap of two accounts' files. " +
			"KeyStore states (TestKeyStoreStates): a script over one KeyStore with 1-3 accounts (ImportECDSA, NewAccount, or a scrypt/pbkdf2 v3/v1 file already in the directory) of 6-24 (thorough 6-40) drawn steps: " +
			"a call of one of the ten passphrase-taking entry points (Unlock, TimedUnlock, SignHashWithPassphrase, SignTxWithPassphrase, the same two through the account's Wallet, Export, Update, Delete, Import of a file exported earlier) with the right or with another passphrase, the account named by address+URL, address only or URL only; " +
			"Lock; a 1 ms TimedUnlock that is left to expire; signing without passphrase; re-import of a deleted account; after every step that can change the state a sweep of all ten entry points with one other passphrase. " +
			"Other passphrases: edit distance 1 from the current one, the account's earlier ones (after Update / re-import), those of the other accounts of the KeyStore and of exported files, the empty one. " +
			"A model (current passphrase, locked / unlocked indefinitely / unlocked with a 6 h timeout / locked again by Lock or by expiry, listed or deleted) decides: the right passphrase of a listed account is accepted and acts with the account's key, any other is refused with an error and changes neither the key file nor the account list nor lets a locked account sign; one evaluation per refused call, distinct by (key, passphrase, state, entry point, offered passphrase). " +
			"non-trivial = an altered file that still parses with every member present and of the documented type, or a wrong passphrase at edit distance 1, or a round trip of a key with a leading zero byte; distinct by hash of (kind, scalar, passphrase, action) — random salts and IVs are not part of the hash",
		Assumptions: []string{
			"x/crypto scrypt, pbkdf2, sha3 (legacy Keccak-256), crypto/aes and btcec curve arithmetic are correct; the reference reader/writer in ref.go is checked against the published Web3 Secret Storage vectors (TestPublishedVectors)",
			"a file the keystore writes must be readable by a strict reader of the definition (32-byte zero-padded ciphertext, 16-byte iv, version 3, address = address of the key): this is how a dropped zero-padding is observable, since the keystore itself also reads the short legacy form",
			"alterations whose scrypt/pbkdf2 parameters would need > 64 MiB or more than 2^15 block mixes / HMAC rounds are skipped and counted (generator/kdf-too-expensive); the keystore itself imposes no bound",
			"'another passphrase' means another HMAC-SHA256 key: scrypt and PBKDF2 use the passphrase only as an HMAC key, and RFC 2104 pads a short key with zero bytes (and hashes one longer than 64 bytes), so p and p+\"\\x00\" are the same secret for every implementation of the format; such pairs are left out and counted (generator/hmac-equivalent-passphrase)",
			"IV alterations are in the tampering domain only for files that carry the address member (every file the keystore writes does): the v3 format does not authenticate the IV, so for a foreign address-less file no reader can tell",
			"state machine: unlock timeouts are either 6 h and more (never expire within a run) or 1 ms followed by waiting until the account no longer signs (up to 30 s; if that is not seen the case locks the account itself and counts inconclusive/unlock-expiry-not-seen - never a verdict); a refused call that also locks an unlocked account is tolerated (the model follows); after an accepted Delete the harness locks the address itself, because the KeyStore keeps a deleted account's key unlocked and the statement does not speak about that; SignTx sender recovery uses aquachain's own types.Sender (transaction hashing is not C20's subject); wallets are asked by address (+URL) only, as keystoreWallet requires",
			"KeyStore account lists are read once per KeyStore instance (the cache reloads at most every 2400 s and the fallback watcher is a no-op): 'running' cases overwrite the file of a cached account, 'rescan' cases open a new KeyStore on a directory holding the altered file",
		},
	})
}

// ---------- calling the code under test, panics classified ----------

type outcome struct {
	key      *keystore.Key
	err      error
	panicked bool
	panicVal string
}

func guard(f func()) (p string, panicked bool) {
	defer func() {
		if r := recover(); r != nil {
			p, panicked = fmt.Sprint(r), true
		}
	}()
	f()
	return
}

func decrypt(file []byte, pass string) (o outcome) {
	o.panicVal, o.panicked = guard(func() { o.key, o.err = keystore.DecryptKey(file, pass) })
	return
}

type subject struct {
	scalar []byte // 32 bytes
	addr   [20]byte
}

func newSubject(scalar []byte) subject {
	s := subject{scalar: pad32(scalar)}
	s.addr = refAddress(s.scalar)
	return s
}

func (s subject) priv() *btcec.PrivateKey {
	k, _ := btcec.PrivKeyFromBytes(s.scalar)
	return k
}

func (s subject) addrHex() string { return hex.EncodeToString(s.addr[:]) }

// judge applies oracle (iii)/(i) to an outcome: "" is a pass.
func (s subject) judge(o outcome) (verdict, bad string) {
	switch {
	case o.panicked:
		return "panic", "panic: " + o.panicVal
	case o.err != nil:
		return "rejected", ""
	case o.key == nil || o.key.PrivateKey == nil:
		return "nil", "no error and no key"
	}
	got := o.key.PrivateKey.Serialize()
	if !bytes.Equal(got, s.scalar) {
		return "different", fmt.Sprintf("DIFFERENT KEY without error: scalar %x (address %x), original %x (address %x)", got, o.key.Address, s.scalar, s.addr)
	}
	if !bytes.Equal(o.key.Address[:], s.addr[:]) {
		return "different", fmt.Sprintf("original scalar but address %x, want %x", o.key.Address, s.addr)
	}
	return "original", ""
}

// knownShape names the listed finding an altered file falls under (""
// if none). origIV is the IV of the unaltered file (nil when unknown).
func knownShape(sh shape, origIV []byte, hasAddress bool) string {
	if !sh.Parses {
		return ""
	}
	switch {
	case sh.typeShape():
		return kType
	case sh.dklenNonPositiveShape():
		return kDKLen
	case sh.scryptZeroShape():
		return kZero
	case sh.ivLengthShape():
		return kIVLen
	case sh.cbcBlockShape():
		return kCBC
	}
	if origIV != nil {
		if iv, err := hex.DecodeString(sh.Crypto.CipherParams.IV); err == nil && len(iv) == 16 && !bytes.Equal(iv, origIV) {
			return kIV
		}
	}
	return ""
}

// ---------- generators ----------

var groupOrder, _ = hex.DecodeString("fffffffffffffffffffffffffffffffebaaedce6af48a03bbfd25e8cd0364141")

func validScalar(b []byte) bool {
	if bytes.Compare(b, groupOrder) >= 0 {
		return false
	}
	// crypto.BytesToKey refuses 0 and 1; keep clear of them
	return bytes.Compare(b, pad32([]byte{2})) >= 0
}

func drawScalar(t *rapid.T) ([]byte, string) {
	class := rapid.SampledFrom([]string{"key:lead-zero-1", "key:lead-zero-2", "key:lead-zero-1", "key:lead-zero-2", "key:lead-zero-16", "key:small", "key:near-n", "key:high-bit", "key:uniform", "key:uniform"}).Draw(t, "keyclass")
	b := rapid.SliceOfN(rapid.Byte(), 32, 32).Draw(t, "scalar")
	switch class {
	case "key:lead-zero-1":
		b[0] = 0
		b[1] |= 1
	case "key:lead-zero-2":
		b[0], b[1] = 0, 0
		b[2] |= 1
	case "key:lead-zero-16":
		for i := 0; i < 16; i++ {
			b[i] = 0
		}
		b[16] |= 1
	case "key:small":
		v := rapid.IntRange(2, 70000).Draw(t, "small")
		b = pad32([]byte{byte(v >> 16), byte(v >> 8), byte(v)})
	case "key:near-n":
		d := rapid.IntRange(1, 300).Draw(t, "below-n")
		b = append([]byte{}, groupOrder...)
		for i := 31; d > 0; i-- { // subtract d
			x := int(b[i]) - d%256
			d /= 256
			if x < 0 {
				x += 256
				d++
			}
			b[i] = byte(x)
		}
	case "key:high-bit":
		b[0] |= 0x80
	}
	if !validScalar(b) {
		b[0] &= 0x7f
		if !validScalar(b) {
			b[31] |= 2
		}
	}
	return b, class
}

var normPairs = [][2]string{ // NFC, NFD
	{"\u00e9", "e\u0301"}, {"\u00f1", "n\u0303"}, {"\u00c5", "A\u030a"}, {"\uac00", "\u1100\u1161"}, {"\u1e69", "s\u0323\u0307"},
}

type passphrase struct {
	s      string
	labels []string
	twin   string // the other normalisation form of the same text, "" if none
}

func drawPass(t *rapid.T) passphrase {
	ascii := func(lbl string, min, max int) string {
		return string(rapid.SliceOfN(rapid.ByteRange(0x20, 0x7e), min, max).Draw(t, lbl))
	}
	kind := rapid.SampledFrom([]string{"empty", "ascii", "ascii", "long", "nfc", "nfd", "nul", "bytes", "unicode"}).Draw(t, "passkind")
	switch kind {
	case "empty":
		return passphrase{s: "", labels: []string{"pass:empty"}}
	case "ascii":
		return passphrase{s: ascii("pass", 1, 16), labels: []string{"pass:ascii"}}
	case "long":
		return passphrase{s: ascii("pass", 200, 200), labels: []string{"pass:long"}}
	case "nfc", "nfd":
		pair := rapid.SampledFrom(normPairs).Draw(t, "pair")
		pre, post := ascii("pre", 0, 5), ascii("post", 0, 5)
		a, b := pre+pair[0]+post, pre+pair[1]+post
		if kind == "nfd" {
			a, b = b, a
		}
		return passphrase{s: a, twin: b, labels: []string{"pass:non-ascii", "pass:" + kind}}
	case "nul":
		a := ascii("pass", 0, 8)
		i := rapid.IntRange(0, len(a)).Draw(t, "nulpos")
		return passphrase{s: a[:i] + "\x00" + a[i:], labels: []string{"pass:nul"}}
	case "bytes":
		return passphrase{s: string(rapid.SliceOfN(rapid.Byte(), 1, 12).Draw(t, "pass")), labels: []string{"pass:bytes"}}
	}
	return passphrase{s: rapid.StringN(1, 8, 32).Draw(t, "pass"), labels: []string{"pass:non-ascii", "pass:unicode"}}
}

// nearMisses returns passphrases at edit distance 1 (byte level): at every
// position of a short passphrase (at up to `max` drawn positions of a long one)
// a substitution of the low bit, of the case bit, a deletion and an insertion;
// plus the classic slips at the ends.
func nearMisses(t *rapid.T, p string, max int) []string {
	set := map[string]bool{}
	add := func(s string) {
		if hmacEquivalent(s, p) {
			if s != p {
				ev.Add("generator/hmac-equivalent-passphrase", 1)
			}
			return
		}
		set[s] = true
	}
	positions := make([]int, 0, len(p))
	if len(p) <= max {
		for i := range p {
			positions = append(positions, i)
		}
	} else {
		positions = append(positions, 0, len(p)-1)
		for len(positions) < max {
			positions = append(positions, rapid.IntRange(0, len(p)-1).Draw(t, "nmpos"))
		}
	}
	ins := rapid.Byte().Draw(t, "nmins")
	for _, i := range positions {
		add(p[:i] + string([]byte{p[i] ^ 1}) + p[i+1:])
		add(p[:i] + string([]byte{p[i] ^ 0x20}) + p[i+1:])
		add(p[:i] + string([]byte{p[i] ^ 0x80}) + p[i+1:])
		add(p[:i] + p[i+1:])
		add(p[:i] + string([]byte{ins}) + p[i:])
		add(p[:i] + p[i:i+1] + p[i:]) // doubled character
	}
	for _, c := range []string{" ", "\n", "\x00", "a", "0"} {
		add(p + c)
		add(c + p)
	}
	out := make([]string, 0, len(set))
	for s := range set {
		out = append(out, s)
	}
	sort.Strings(out)
	return out
}

type fileKind struct {
	name   string
	labels []string
}

var fileKinds = []fileKind{
	{"enc", []string{"source:EncryptKey", "kdf:scrypt", "format:v3"}},
	{"enc", []string{"source:EncryptKey", "kdf:scrypt", "format:v3"}},
	{"ref-scrypt", []string{"source:reference", "kdf:scrypt", "format:v3"}},
	{"ref-pbkdf2", []string{"source:reference", "kdf:pbkdf2", "format:v3"}},
	{"ref-pbkdf2", []string{"source:reference", "kdf:pbkdf2", "format:v3"}},
	{"ref-v1-scrypt", []string{"source:reference", "kdf:scrypt", "format:v1"}},
	{"ref-v1-pbkdf2", []string{"source:reference", "kdf:pbkdf2", "format:v1"}},
	{"ref-short", []string{"source:reference", "kdf:scrypt", "format:v3", "format:v3-short-ciphertext"}},
	{"ref-noaddr", []string{"source:reference", "kdf:pbkdf2", "format:v3", "format:no-address"}},
}

func drawKDF(t *rapid.T, kind string) kdfSpec {
	k := kdfSpec{Kind: kind, Salt: rapid.SliceOfN(rapid.Byte(), 32, 32).Draw(t, "salt")}
	k.DKLen = rapid.SampledFrom([]int{32, 32, 32, 33, 48, 64}).Draw(t, "dklen")
	if kind == "scrypt" {
		k.N = rapid.SampledFrom([]int{2, 2, 4, 16, 64}).Draw(t, "n")
		k.R = rapid.SampledFrom([]int{8, 8, 1, 2}).Draw(t, "r")
		k.P = rapid.SampledFrom([]int{1, 1, 2, 3}).Draw(t, "p")
	} else {
		k.C = rapid.SampledFrom([]int{1, 1, 2, 7, 100}).Draw(t, "c")
	}
	return k
}

const testUUID = "3198bc9c-6672-4ab3-9995-4942343ae5b6"

// makeFile produces the unaltered key file of the drawn kind for s.
func makeFile(t *rapid.T, s subject, pass string, kind string) *node {
	iv := rapid.SliceOfN(rapid.Byte(), 16, 16).Draw(t, "iv")
	var root *node
	var err error
	switch kind {
	case "enc":
		n := rapid.SampledFrom([]int{2, 2, 4, 8, 16}).Draw(t, "encN")
		p := rapid.SampledFrom([]int{1, 1, 2}).Draw(t, "encP")
		root, err = encryptChecked(s, pass, n, p)
	case "ref-scrypt":
		root, err = buildV3(s.scalar, pass, drawKDF(t, "scrypt"), iv, s.addrHex(), testUUID)
	case "ref-pbkdf2":
		root, err = buildV3(s.scalar, pass, drawKDF(t, "pbkdf2"), iv, s.addrHex(), testUUID)
	case "ref-noaddr":
		root, err = buildV3(s.scalar, pass, drawKDF(t, "pbkdf2"), iv, "", testUUID)
	case "ref-v1-scrypt":
		root, err = buildV1(s.scalar, pass, drawKDF(t, "scrypt"), iv, s.addrHex(), testUUID)
	case "ref-v1-pbkdf2":
		root, err = buildV1(s.scalar, pass, drawKDF(t, "pbkdf2"), iv, s.addrHex(), testUUID)
	case "ref-short":
		stored := bytes.TrimLeft(s.scalar, "\x00")
		root, err = buildV3(stored, pass, drawKDF(t, "scrypt"), iv, s.addrHex(), testUUID)
	}
	if err != nil {
		t.Fatalf("cannot make %s file: %v", kind, err)
	}
	return root
}

// encryptChecked calls EncryptKey and applies the strict independent reader to
// its output (oracle (i), write side).
func encryptChecked(s subject, pass string, n, p int) (*node, error) {
	key := &keystore.Key{Id: []byte("\x31\x98\xbc\x9c\x66\x72\x4a\xb3\x99\x95\x49\x42\x34\x3a\xe5\xb6"), PrivateKey: s.priv()}
	copy(key.Address[:], s.addr[:])
	var out []byte
	var err error
	if pv, panicked := guard(func() { out, err = keystore.EncryptKey(key, pass, n, p) }); panicked {
		return nil, fmt.Errorf("EncryptKey panicked: %s", pv)
	}
	if err != nil {
		return nil, fmt.Errorf("EncryptKey: %v", err)
	}
	ev.Label("api:EncryptKey")
	if err := strictCheck(out, pass, s); err != nil {
		return nil, fmt.Errorf("EncryptKey(scalar %x, pass %q, N=%d, P=%d): %v\nfile: %s", s.scalar, pass, n, p, err, out)
	}
	return fromJSON(out)
}

func strictCheck(file []byte, pass string, s subject) error {
	return strictCheckID(file, pass, s, true)
}

func strictCheckID(file []byte, pass string, s subject, checkID bool) error {
	sc, addr, err := refDecryptStrict(file, pass, checkID)
	if err != nil {
		return fmt.Errorf("the file written is not a version-3 file an independent strict reader decrypts: %v", err)
	}
	if !bytes.Equal(sc, s.scalar) || addr != s.addr {
		return fmt.Errorf("the file written holds scalar %x (address %x), want %x (%x)", sc, addr, s.scalar, s.addr)
	}
	return nil
}

// ---------- the DecryptKey-level case ----------

type replayCase struct {
	Kind    string    `json:"kind"`
	Scalar  string    `json:"scalar"`
	PassHex string    `json:"pass_hex"`
	File    string    `json:"file"`              // the file given to the keystore
	OrigIV  string    `json:"orig_iv,omitempty"` // IV of the unaltered file
	Tamper  string    `json:"tamper,omitempty"`
	Wrong   bool      `json:"wrong_passphrase,omitempty"` // PassHex is NOT the passphrase of the file: must be rejected
	Message string    `json:"message,omitempty"`
	Script  *ksScript `json:"script,omitempty"` // kind "ks-states": set-up and steps of a KeyStore state machine case
}

// checkAltered applies oracle (iii) to one altered file at DecryptKey level.
// It returns the verdict, and a non-empty bad on violation.
func checkAltered(s subject, pass string, file []byte, origIV []byte, hasAddr bool, limit float64) (verdict, bad string) {
	sh := shapeOf(file)
	if sh.tooExpensive(limit) {
		ev.Add("generator/kdf-too-expensive", 1)
		return "excluded-cost", ""
	}
	ks := knownShape(sh, origIV, hasAddr)
	if ks == kIV && !hasAddr {
		// the format cannot authenticate the IV of an address-less file (see Assumptions)
		ev.Add("generator/iv-of-addressless-file", 1)
		return "excluded-domain", ""
	}
	if ks != "" && ev.Known(ks) {
		ev.Excluded(ks)
		return "excluded-known", ""
	}
	v, bad := s.judge(decrypt(file, pass))
	if v == "original" && !hmacEquivalent(pass+"?", pass) {
		// (ii) holds for an altered file that is still accepted, too
		if o := decrypt(file, pass+"?"); o.panicked || o.err == nil {
			return "different", fmt.Sprintf("the altered file is accepted with the right passphrase and ALSO with the wrong passphrase %q (panic=%v %s)", pass+"?", o.panicked, o.panicVal)
		}
	}
	return v, bad
}

func failCase(t interface {
	Fatalf(string, ...interface{})
}, c replayCase, format string, a ...interface{}) {
	c.Message = fmt.Sprintf(format, a...)
	ev.SaveCase("case", c)
	t.Fatalf("%s\n  kind=%s scalar=%s pass=%q (hex %s) tamper=%s\n  file: %s", c.Message, c.Kind, c.Scalar, mustUnhex(c.PassHex), c.PassHex, c.Tamper, c.File)
}

func mustUnhex(s string) string { b, _ := hex.DecodeString(s); return string(b) }

// sampleTampers draws the alterations tried on one generated file.
func sampleTampers(t *rapid.T, root *node) []tamper {
	var out []tamper
	for _, f := range tamperFields {
		h, _, _ := root.find(f)
		if h == nil {
			continue
		}
		if len(h.raw) >= 20 { // hex-like members: ciphertext, mac, iv, salt, address, id
			for i := 0; i < 4; i++ {
				pos := rapid.IntRange(0, len(h.raw)-1).Draw(t, f+"-pos")
				for _, d := range []int{1, -1} {
					if c, ok := hexStep(h.raw[pos], d); ok {
						out = append(out, tamper{Field: f, Op: "repl", Pos: pos, Ch: string(c)})
					}
				}
				ch := string(rapid.SampledFrom(alphabet).Draw(t, f+"-ch"))
				out = append(out, tamper{Field: f, Op: "repl", Pos: pos, Ch: ch}, tamper{Field: f, Op: "del", Pos: pos},
					tamper{Field: f, Op: "ins", Pos: pos, Ch: ch})
			}
			out = append(out, tamper{Field: f, Op: "ins", Pos: len(h.raw), Ch: "0"})
		} else {
			all := allTampers(root, f, false)
			for i := 0; i < 12 && len(all) > 0; i++ {
				out = append(out, all[rapid.IntRange(0, len(all)-1).Draw(t, f+"-alt")])
			}
		}
		for i := 0; i < 2; i++ {
			out = append(out, tamper{Field: f, Op: "type", Alt: rapid.SampledFrom(typeAlts).Draw(t, f+"-type")})
		}
		out = append(out, tamper{Field: f, Op: "remove"})
	}
	return out
}

func verdictLabel(v string) string {
	if v == "original" {
		return "tamper:accepted-original"
	}
	return "tamper:" + v
}

func canon(parts ...string) []byte { return []byte(strings.Join(parts, "\x1f")) }

func TestDecryptKey(t *testing.T) {
	ev.Check(t, ev.N(200, 24_000), func(t *rapid.T) {
		scalar, kclass := drawScalar(t)
		s := newSubject(scalar)
		pw := drawPass(t)
		kinds := fileKinds
		fk := rapid.SampledFrom(kinds).Draw(t, "filekind")
		if fk.name == "ref-short" && s.scalar[0] != 0 {
			s.scalar[0] = 0
			if !validScalar(s.scalar) {
				s.scalar[31] |= 2
			}
			s = newSubject(s.scalar)
			kclass = "key:lead-zero-1"
			if s.scalar[1] == 0 {
				kclass = "key:lead-zero-2"
			}
		}
		root := makeFile(t, s, pw.s, fk.name)
		file := root.JSON()
		base := replayCase{Kind: fk.name, Scalar: hex.EncodeToString(s.scalar), PassHex: hex.EncodeToString([]byte(pw.s)), File: string(file), OrigIV: root.get("iv")}
		origIV, _ := hex.DecodeString(root.get("iv"))
		hasAddr := root.get("address") != ""
		lbls := append(append([]string{kclass, "api:DecryptKey"}, pw.labels...), fk.labels...)

		// (i) round trip
		v, bad := s.judge(decrypt(file, pw.s))
		if bad != "" || v != "original" {
			failCase(t, base, "round trip failed (%s): %s %v", v, bad, decrypt(file, pw.s).err)
		}
		ev.Case(s.scalar[0] == 0, canon("rt", fk.name, base.Scalar, base.PassHex), lbls...)
		ev.Sample(map[string]interface{}{"action": "round-trip", "kind": fk.name, "scalar": base.Scalar, "pass_hex": base.PassHex, "file": string(file)})

		// (ii) other passphrases
		wrong := nearMisses(t, pw.s, 12)
		for _, w := range wrong {
			o := decrypt(file, w)
			if o.panicked || o.err == nil {
				c := base
				c.Wrong, c.PassHex = true, hex.EncodeToString([]byte(w))
				failCase(t, c, "a passphrase at edit distance 1 from %q was not rejected (panic=%v %s)", pw.s, o.panicked, o.panicVal)
			}
			ev.Case(true, canon("wp", fk.name, base.Scalar, base.PassHex, w), "wrongpass:near-miss")
		}
		if pw.twin != "" {
			o := decrypt(file, pw.twin)
			if o.panicked || o.err == nil {
				c := base
				c.Wrong, c.PassHex = true, hex.EncodeToString([]byte(pw.twin))
				failCase(t, c, "the other Unicode normalisation form of the passphrase (different bytes) was not rejected")
			}
			ev.Case(true, canon("wp", fk.name, base.Scalar, base.PassHex, pw.twin), "wrongpass:nfc-nfd")
		}
		far := rapid.SliceOfN(rapid.Byte(), 0, 20).Draw(t, "farpass")
		if !hmacEquivalent(string(far), pw.s) {
			if o := decrypt(file, string(far)); o.panicked || o.err == nil {
				c := base
				c.Wrong, c.PassHex = true, hex.EncodeToString(far)
				failCase(t, c, "an unrelated passphrase was not rejected")
			}
			ev.Case(false, canon("wp", fk.name, base.Scalar, base.PassHex, string(far)), "wrongpass:far")
		}

		// (iii) altered files
		for _, tm := range sampleTampers(t, root) {
			alt := tm.apply(root)
			if alt == nil {
				continue
			}
			af := alt.JSON()
			verdict, bad := checkAltered(s, pw.s, af, origIV, hasAddr, workLimit)
			if bad != "" {
				c := base
				c.File, c.Tamper = string(af), tm.String()
				failCase(t, c, "altered file (%s): %s", tm, bad)
			}
			sh := shapeOf(af)
			ev.Case(sh.Parses && sh.Complete, canon("tm", fk.name, base.Scalar, base.PassHex, tm.String()), "field:"+tm.Field, "op:"+tm.Op, verdictLabel(verdict))
			if verdict == "original" {
				ev.Label("accepted-original:" + tm.Field)
				ev.Sample(map[string]interface{}{"action": "altered-file-accepted-with-original-key", "tamper": tm.String(), "file": string(af)})
			}
		}
	})
}
