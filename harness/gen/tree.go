package gen

import (
	"fmt"
	"math/big"

	"gitlab.com/aquachain/aquachain/common"
	"gitlab.com/aquachain/aquachain/core/state"
	"gitlab.com/aquachain/aquachain/core/types"
	"pgregory.net/rapid"
)

// TNode is one block of a generated block tree.
type TNode struct {
	Block    *types.Block
	Receipts types.Receipts
	Parent   *TNode
	Children []*TNode
	Height   uint64
	TD       *big.Int // model: parent's TD + own difficulty (plain big integers)
	Branch   int
	TxKinds  []string
	Index    int // position in Tree.Nodes
}

// Tree is a generated block tree rooted at genesis.
type Tree struct {
	B       *Builder
	Root    *TNode
	Nodes   []*TNode // build order (parent-closed), Nodes[0] is genesis
	ByHash  map[common.Hash]*TNode
	Uncled  int
	Reused  int
	HasTxs  bool
	Configs string
}

// TreeOpts bounds tree generation.
type TreeOpts struct {
	MaxBranches int
	MaxDepth    int // per branch
	MaxTxs      int // per block (0 = empty blocks)
	Uncles      bool
	Kinds       []string
	TimeDeltas  []int64
	MinMain     int
	ReuseTxs    bool // place transactions of other branches again where they still fit
	Rivals      bool // one case in three: slow main branch + shorter, faster (heavier) rival
	ForceRival  bool // always that shape
	Senders     int  // number of sender keys transactions are drawn from (0 = the default four)
}

func (t *Tree) add(parent *TNode, b *Built, branch int, kinds []string) *TNode {
	n := &TNode{Block: b.Block, Receipts: b.Receipts, Parent: parent, Height: parent.Height + 1,
		TD: new(big.Int).Add(parent.TD, b.Block.Difficulty()), Branch: branch, TxKinds: kinds, Index: len(t.Nodes)}
	parent.Children = append(parent.Children, n)
	t.Nodes = append(t.Nodes, n)
	t.ByHash[b.Block.Hash()] = n
	return n
}

// IsAncestor reports whether a is an ancestor of (or equal to) n.
func IsAncestor(a, n *TNode) bool {
	for x := n; x != nil; x = x.Parent {
		if x == a {
			return true
		}
	}
	return false
}

// AncestorAt returns n's ancestor at the given height (n itself if equal).
func AncestorAt(n *TNode, h uint64) *TNode {
	x := n
	for x != nil && x.Height > h {
		x = x.Parent
	}
	return x
}

// uncleCandidates returns headers usable as uncles of a child of parent.
func (t *Tree) uncleCandidates(parent *TNode) []*TNode {
	// ancestors within 7 generations, and uncles they already included
	anc := map[common.Hash]bool{}
	used := map[common.Hash]bool{}
	x := parent
	for i := 0; i < 7 && x != nil; i++ {
		anc[x.Block.Hash()] = true
		for _, u := range x.Block.Uncles() {
			// an included uncle header carries the including block's version;
			// its identity is its hash under its own height's version
			cp := types.CopyHeader(u)
			cp.Version = t.B.Config.GetBlockVersion(cp.Number)
			used[cp.Hash()] = true
		}
		x = x.Parent
	}
	var out []*TNode
	for _, n := range t.Nodes {
		if n.Parent == nil || anc[n.Block.Hash()] || used[n.Block.Hash()] {
			continue
		}
		// uncle's parent must be an ancestor of the new block within the window
		// (and the uncle must not be the new block's parent's... sibling of the
		// new block itself: parent == new block's parent is not allowed)
		if !anc[n.Parent.Block.Hash()] || n.Parent == parent {
			continue
		}
		if IsAncestor(n, parent) {
			continue
		}
		out = append(out, n)
	}
	return out
}

// MinerPool: funded key addresses and addresses that hold nothing before their first reward.
func MinerPool() []common.Address {
	return []common.Address{Keys[4].Addr, Keys[5].Addr, Keys[6].Addr, FreshMiners[0], FreshMiners[1]}
}

// DrawTree generates a block tree on a fresh builder for the configuration.
func DrawTree(t *rapid.T, nc NamedConfig, o TreeOpts) *Tree {
	g := Genesis(nc.Config, 0)
	b, err := NewBuilder(g)
	if err != nil {
		t.Fatalf("builder: %v", err)
	}
	gen := b.Chain.Genesis()
	root := &TNode{Block: gen, Height: 0, TD: new(big.Int).Set(gen.Difficulty())}
	tr := &Tree{B: b, Root: root, Nodes: []*TNode{root}, ByHash: map[common.Hash]*TNode{gen.Hash(): root}, Configs: nc.Name}
	if len(o.TimeDeltas) == 0 {
		o.TimeDeltas = []int64{1, 5, 13, 60, 240, 240, 600, 3000}
	}
	nbr := rapid.IntRange(1, o.MaxBranches).Draw(t, "branches")
	rival := o.Rivals && nbr >= 2 && rapid.IntRange(0, 2).Draw(t, "rival") == 0
	if o.ForceRival {
		rival = true
		if nbr < 2 {
			nbr = 2
		}
	}
	mainDepth := 0
	for br := 0; br < nbr; br++ {
		parent := root
		if br > 0 {
			parent = tr.Nodes[rapid.IntRange(0, len(tr.Nodes)-1).Draw(t, "forkpoint")]
		}
		min := 1
		if br == 0 && o.MinMain > 0 {
			min = o.MinMain
		}
		depth := rapid.IntRange(min, o.MaxDepth).Draw(t, "depth")
		if br > 0 && rapid.Bool().Draw(t, "contest") {
			// a contesting branch: about as long as what it competes with
			var tallest uint64
			for _, n := range tr.Nodes {
				if n.Height > tallest {
					tallest = n.Height
				}
			}
			rem := int(tallest) - int(parent.Height)
			lo, hi := rem-3, rem+2
			if lo < 1 {
				lo = 1
			}
			if hi > o.MaxDepth+2 {
				hi = o.MaxDepth + 2
			}
			if hi >= lo {
				depth = rapid.IntRange(lo, hi).Draw(t, "contestdepth")
			}
		}
		// a branch keeps one pace most of the time so that branches differ in weight
		pace := rapid.SampledFrom(o.TimeDeltas).Draw(t, "pace")
		if rival {
			// directed shape: a slow main branch and a faster rival that forks
			// near the root and ends one or two blocks lower, yet heavier
			if br == 0 {
				pace = 3000
				if depth < 5 {
					depth = 5
				}
			} else if br == 1 {
				pace = 1
				parent = tr.Nodes[rapid.IntRange(0, 2).Draw(t, "rivalfork")]
				depth = mainDepth - int(parent.Height) - rapid.IntRange(1, 2).Draw(t, "rivalshort")
				if depth < 1 {
					depth = 1
				}
			}
		}
		if br == 0 {
			mainDepth = depth
		}
		for d := 0; d < depth; d++ {
			delta := pace
			if rapid.IntRange(0, 3).Draw(t, "jitter") == 0 {
				delta = rapid.SampledFrom(o.TimeDeltas).Draw(t, "delta")
			}
			spec := BlockSpec{TimeDelta: delta, Coinbase: MinerPool()[rapid.IntRange(0, 4).Draw(t, "miner")]}
			if rapid.IntRange(0, 4).Draw(t, "extra") == 0 {
				spec.Extra = rapid.SliceOfN(rapid.Byte(), 0, 32).Draw(t, "extradata")
			}
			var kinds []string
			if o.MaxTxs > 0 {
				ntx := rapid.IntRange(0, o.MaxTxs).Draw(t, "ntx")
				cnt := 0
				spec.TxFn = func(st *state.StateDB, h *types.Header, gasLeft uint64) *types.Transaction {
					if cnt >= ntx {
						return nil
					}
					cnt++
					ctx := TxCtx{Config: nc.Config, Num: h.Number, State: st, GasLeft: gasLeft, Kinds: o.Kinds}
					if o.Senders > 0 {
						ctx.Keys = Keys[:o.Senders]
					}
					tx, kind := DrawTx(t, ctx)
					if tx != nil {
						kinds = append(kinds, kind)
						tr.HasTxs = true
					}
					return tx
				}
			}
			if o.ReuseTxs && rapid.IntRange(0, 2).Draw(t, "reuse") == 0 {
				// offer transactions that already sit in blocks of other branches
				var pool []*types.Transaction
				for _, n := range tr.Nodes[1:] {
					if !IsAncestor(n, parent) {
						pool = append(pool, n.Block.Transactions()...)
					}
				}
				for i := 0; i < 3 && len(pool) > 0; i++ {
					spec.Txs = append(spec.Txs, pool[rapid.IntRange(0, len(pool)-1).Draw(t, "reusetx")])
				}
			}
			if o.Uncles {
				cands := tr.uncleCandidates(parent)
				maxU := 2
				if nc.Config.IsHF(5, new(big.Int).SetUint64(parent.Height+1)) {
					maxU = 1
				}
				if len(cands) > 0 && rapid.IntRange(0, 1).Draw(t, "withuncle") == 1 {
					nu := rapid.IntRange(1, maxU).Draw(t, "nuncles")
					for i := 0; i < nu && i < len(cands); i++ {
						c := cands[(rapid.IntRange(0, len(cands)-1).Draw(t, "uncleidx")+i)%len(cands)]
						dup := false
						for _, u := range spec.Uncles {
							if u.Hash() == c.Block.Hash() {
								dup = true
							}
						}
						if !dup {
							spec.Uncles = append(spec.Uncles, c.Block.Header())
						}
					}
				}
			}
			built, err := b.Build(parent.Block, spec)
			if err != nil {
				t.Fatalf("builder could not build block %d on branch %d (config %s): %v", parent.Height+1, br, nc.Name, err)
			}
			if _, dupBlock := tr.ByHash[built.Block.Hash()]; dupBlock && err == nil {
				// identical sibling (same parent, time, miner, content): make it distinct
				spec.Extra = []byte{0xEE, byte(len(tr.Nodes) >> 8), byte(len(tr.Nodes))}
				built, err = b.Build(parent.Block, spec)
				if err != nil {
					t.Fatalf("builder: %v", err)
				}
			}
			if len(built.Skipped) > 0 {
				t.Fatalf("tx generator produced a consensus-invalid transaction: %v", built.Skipped[0])
			}
			tr.Uncled += len(spec.Uncles)
			tr.Reused += len(spec.Txs) - len(built.SkippedTxs)
			parent = tr.add(parent, built, br, kinds)
		}
	}
	return tr
}

// Close releases the builder.
func (t *Tree) Close() { t.B.Chain.Stop() }

// Heaviest returns the maximal total difficulty among the given nodes.
func Heaviest(nodes []*TNode) *big.Int {
	best := new(big.Int)
	for _, n := range nodes {
		if n.TD.Cmp(best) > 0 {
			best = n.TD
		}
	}
	return best
}

// Batch is one InsertChain call: a linked path segment.
type Batch []*TNode

func (b Batch) Blocks() types.Blocks {
	out := make(types.Blocks, len(b))
	for i, n := range b {
		out[i] = n.Block
	}
	return out
}

// DrawHistory draws a parent-closed delivery order of (a subset of) the tree,
// cut into linked batches, interleaving branches.
func DrawHistory(t *rapid.T, tr *Tree, maxBatch int, all bool) []Batch {
	delivered := map[*TNode]bool{tr.Root: true}
	var hist []Batch
	remaining := len(tr.Nodes) - 1
	for remaining > 0 {
		// frontier: undelivered nodes whose parent is delivered
		var frontier []*TNode
		for _, n := range tr.Nodes {
			if !delivered[n] && delivered[n.Parent] {
				frontier = append(frontier, n)
			}
		}
		if len(frontier) == 0 {
			break
		}
		n := frontier[rapid.IntRange(0, len(frontier)-1).Draw(t, "next")]
		if rapid.Bool().Draw(t, "oldestfirst") {
			n = frontier[0] // finish earlier branches first: later ones arrive as competitors
		}
		k := rapid.IntRange(1, maxBatch).Draw(t, "batchlen")
		var batch Batch
		for n != nil && len(batch) < k {
			batch = append(batch, n)
			delivered[n] = true
			remaining--
			var next *TNode
			var und []*TNode
			for _, c := range n.Children {
				if !delivered[c] {
					und = append(und, c)
				}
			}
			if len(und) > 0 {
				next = und[rapid.IntRange(0, len(und)-1).Draw(t, "follow")]
			}
			n = next
		}
		hist = append(hist, batch)
		if !all && remaining > 0 && rapid.IntRange(0, 15).Draw(t, "stopearly") == 0 {
			break
		}
	}
	return hist
}

// Describe renders a tree compactly for samples.
func (t *Tree) Describe() []string {
	var out []string
	for _, n := range t.Nodes[1:] {
		out = append(out, fmt.Sprintf("#%d h=%d parent=#%d br=%d dt=%d diff=%s td=%s txs=%d uncles=%d",
			n.Index, n.Height, n.Parent.Index, n.Branch,
			new(big.Int).Sub(n.Block.Time(), n.Parent.Block.Time()).Int64(), n.Block.Difficulty(), n.TD,
			len(n.Block.Transactions()), len(n.Block.Uncles())))
	}
	return out
}
