package gen

import (
	"math/big"

	"gitlab.com/aquachain/aquachain/common"
	"gitlab.com/aquachain/aquachain/core/state"
	"gitlab.com/aquachain/aquachain/crypto"
	"gitlab.com/aquachain/aquachain/core/types"
	"gitlab.com/aquachain/aquachain/params"
	"pgregory.net/rapid"
)

// Intrinsic is the harness's own intrinsic-gas formula (Homestead rules).
func Intrinsic(data []byte, creation bool) uint64 {
	g := uint64(21000)
	if creation {
		g = 53000
	}
	for _, b := range data {
		if b == 0 {
			g += 4
		} else {
			g += 68
		}
	}
	return g
}

// TxKinds lists the transaction classes DrawTx produces.
var TxKinds = []string{"transfer", "transfer-new", "transfer-precompile", "store-set", "store-clear", "multistore", "multiclear", "emit",
	"reverter", "oog", "invalid", "forward", "forward-nested", "creator", "create", "create-failing", "suicide", "recursor", "bouncer", "random-code", "call-then-fail", "call-then-fail", "blockhash", "blockhash", "blockhash", "call-loop", "touch-created", "codesize"}

// TxCtx is what the transaction generator may look at.
type TxCtx struct {
	Config  *params.ChainConfig
	Num     *big.Int
	State   *state.StateDB
	GasLeft uint64
	Keys    []Key // senders to choose from
	Kinds   []string
}

var fresh = []common.Address{
	common.HexToAddress("0x00000000000000000000000000000000000f0001"),
	common.HexToAddress("0x00000000000000000000000000000000000f0002"),
	common.HexToAddress("0x00000000000000000000000000000000000f0003"),
}

func drawZooTarget(t *rapid.T) common.Address {
	return rapid.SampledFrom([]common.Address{AddrStore, AddrEmit, AddrReverter, AddrInvalid, AddrSuicide, AddrSuicide2, AddrBouncer,
		AddrCreator, AddrMultiStore, AddrRecursor, common.BytesToAddress([]byte{1}), common.BytesToAddress([]byte{2}),
		common.BytesToAddress([]byte{3}), common.BytesToAddress([]byte{4}), common.BytesToAddress([]byte{6}), common.BytesToAddress([]byte{7}),
		common.BytesToAddress([]byte{8}), common.BytesToAddress([]byte{5}), fresh[0], AddrEmptyAcct}).Draw(t, "target")
}

func drawInner(t *rapid.T, to common.Address) []byte {
	switch to {
	case AddrStore:
		return Cat(Word(uint64(rapid.IntRange(0, 5).Draw(t, "slot"))), Word(uint64(rapid.IntRange(0, 3).Draw(t, "val"))))
	case AddrMultiStore:
		return Cat(Word(uint64(rapid.IntRange(0, 40).Draw(t, "start"))), Word(uint64(rapid.IntRange(0, 12).Draw(t, "count"))), Word(uint64(rapid.IntRange(0, 2).Draw(t, "val"))))
	case AddrEmit:
		return drawEmit(t)
	case AddrSuicide, AddrSuicide2:
		return WordAddr(rapid.SampledFrom([]common.Address{AddrSuicide, AddrSuicide2, fresh[1], Keys[0].Addr, AddrStore}).Draw(t, "beneficiary"))
	case AddrCreator:
		return Cat(Word(uint64(rapid.IntRange(0, 1000).Draw(t, "endow"))), drawInitCode(t))
	}
	return rapid.SliceOfN(rapid.Byte(), 0, 40).Draw(t, "innerdata")
}

// TopicPool is the small pool of topics and addresses log filters aim at.
var TopicPool = []common.Hash{
	common.HexToHash("0x01"), common.HexToHash("0x02"), common.HexToHash("0xaa00000000000000000000000000000000000000000000000000000000000000"),
	common.HexToHash("0xddf252ad1be2c89b69c2b068fc378daa952ba7f163c4a11628f55a4df523b3ef"), common.HexToHash("0x00"),
}

func drawEmit(t *rapid.T) []byte {
	n := rapid.IntRange(0, 4).Draw(t, "ntopics")
	var tp [4]common.Hash
	for i := range tp {
		tp[i] = rapid.SampledFrom(TopicPool).Draw(t, "topic")
	}
	return EmitData(n, tp, rapid.SampledFrom(TopicPool).Draw(t, "logdata"))
}

// salted makes a runtime code unique (unreachable bytes behind a STOP), so that its
// code blob is not one the genesis contracts already put into the database.
func salted(t *rapid.T, rt []byte) []byte {
	if rapid.IntRange(0, 3).Draw(t, "plaincode") == 0 {
		return rt
	}
	return append(append(append([]byte{}, rt...), STOP), rapid.SliceOfN(rapid.Byte(), 3, 3).Draw(t, "codesalt")...)
}

func drawInitCode(t *rapid.T) []byte {
	switch rapid.IntRange(0, 5).Draw(t, "initkind") {
	case 0:
		return InitCode(salted(t, codeStore()))
	case 1:
		return InitCode(salted(t, codeSuicide()))
	case 2: // constructor that stores and logs, then returns code
		a := NewAsm().Push(9).Push(1).Op(SSTORE).Push(0).Push(0).Op(LOG0)
		return InitCodePrefix(a.Bytes(), codeBouncer())
	case 3: // reverting constructor
		return NewAsm().Push(1).Push(1).Op(SSTORE).Push(0).Push(0).Op(REVERT).Bytes()
	case 4: // constructor returning a lot of code (code-deposit gas)
		return NewAsm().Push(uint64(rapid.SampledFrom([]int{100, 3000, 24576, 24577}).Draw(t, "codelen"))).Push(0).Op(RETURN).Bytes()
	default:
		return rapid.SliceOfN(rapid.Byte(), 0, 24).Draw(t, "rawinit")
	}
}

// DrawTx draws one transaction that is valid by construction at the given
// state: correct nonce, gas limit >= intrinsic and <= GasLeft, and gas*price +
// value <= balance. Execution may still succeed, revert or run out of gas.
// Returns nil if no transaction fits.
func DrawTx(t *rapid.T, c TxCtx) (*types.Transaction, string) {
	keys := c.Keys
	if len(keys) == 0 {
		keys = Keys[:4]
	}
	k := rapid.SampledFrom(keys).Draw(t, "sender")
	kinds := c.Kinds
	if len(kinds) == 0 {
		kinds = TxKinds
	}
	kind := rapid.SampledFrom(kinds).Draw(t, "txkind")
	var (
		to    *common.Address
		data  []byte
		value = new(big.Int)
		extra = uint64(rapid.SampledFrom([]int{0, 1, 700, 5000, 25000, 60000, 200000}).Draw(t, "gasextra"))
	)
	addr := func(a common.Address) *common.Address { return &a }
	smallValue := func() *big.Int {
		return big.NewInt(int64(rapid.SampledFrom([]int{0, 0, 1, 1000, 1_000_000}).Draw(t, "value")))
	}
	switch kind {
	case "transfer":
		to, value = addr(rapid.SampledFrom(keys).Draw(t, "rcpt").Addr), smallValue()
	case "transfer-new":
		to, value = addr(rapid.SampledFrom(fresh).Draw(t, "newrcpt")), smallValue()
	case "transfer-precompile":
		to, value = addr(common.BytesToAddress([]byte{byte(rapid.IntRange(1, 8).Draw(t, "pre"))})), smallValue()
		data = rapid.SliceOfN(rapid.Byte(), 0, 64).Draw(t, "predata")
	case "store-set":
		to, data = addr(AddrStore), Cat(Word(uint64(rapid.IntRange(0, 5).Draw(t, "slot"))), Word(uint64(rapid.IntRange(1, 3).Draw(t, "val"))))
		extra += 25000
	case "store-clear":
		to, data = addr(AddrStore), Cat(Word(uint64(rapid.IntRange(0, 5).Draw(t, "slot"))), Word(0))
		extra += 6000
	case "multistore":
		n := rapid.IntRange(1, 12).Draw(t, "count")
		to, data = addr(AddrMultiStore), Cat(Word(uint64(rapid.IntRange(0, 40).Draw(t, "start"))), Word(uint64(n)), Word(uint64(rapid.IntRange(1, 2).Draw(t, "val"))))
		extra += uint64(n) * 21000
	case "multiclear":
		n := rapid.IntRange(1, 12).Draw(t, "count")
		to, data = addr(AddrMultiStore), Cat(Word(uint64(rapid.IntRange(0, 40).Draw(t, "start"))), Word(uint64(n)), Word(0))
		extra += uint64(n) * 6000
	case "emit":
		to, data = addr(AddrEmit), drawEmit(t)
		extra += 3000
	case "reverter":
		to, value = addr(AddrReverter), smallValue()
		extra += 30000
	case "oog":
		to = addr(AddrOOG)
	case "invalid":
		to, value = addr(AddrInvalid), smallValue()
		extra += 25000
	case "forward", "forward-nested":
		target := drawZooTarget(t)
		inner := drawInner(t, target)
		ckind := rapid.IntRange(0, 3).Draw(t, "callkind")
		v := smallValue()
		igas := uint64(rapid.SampledFrom([]int{0, 0, 2300, 30000}).Draw(t, "innergas"))
		data = ForwardData(ckind, target, v, igas, inner)
		if kind == "forward-nested" {
			data = ForwardData(rapid.IntRange(0, 3).Draw(t, "outerkind"), AddrForwarder2, big.NewInt(0), 0, data)
		}
		to, value = addr(AddrForwarder), smallValue()
		extra += 120000
	case "creator":
		to, data = addr(AddrCreator), Cat(Word(uint64(rapid.IntRange(0, 1000).Draw(t, "endow"))), drawInitCode(t))
		extra += 150000
	case "create":
		data, value = InitCode(salted(t, rapid.SampledFrom([][]byte{codeStore(), codeSuicide(), codeBouncer(), codeEmit()}).Draw(t, "rt"))), smallValue()
		extra += 100000
	case "create-failing":
		data, value = drawInitCode(t), smallValue()
		extra += 40000
	case "suicide":
		to = addr(rapid.SampledFrom([]common.Address{AddrSuicide, AddrSuicide2}).Draw(t, "victim"))
		data = drawInner(t, *to)
		value = smallValue()
		extra += 30000
	case "call-then-fail":
		target := rapid.SampledFrom([]common.Address{AddrSuicide, AddrSuicide2, AddrStore, AddrCreator, AddrBouncer, AddrEmit}).Draw(t, "cftarget")
		to, data = addr(AddrCallFail), Cat(WordAddr(target), WordBig(smallValue()), drawInner(t, target))
		value = smallValue()
		extra += 150000
	case "blockhash":
		// stores and logs BLOCKHASH(number - k): the result depends on the block's own ancestry
		to, data = addr(AddrBlockhash), Word(uint64(rapid.SampledFrom([]int{0, 1, 1, 2, 2, 3, 5, 200, 256, 257, 300}).Draw(t, "back")))
		extra += 30000
	case "call-loop":
		// repeated value-bearing CALL/CALLCODE (stipend and value-transfer pricing, many times in one frame), then more work
		target := rapid.SampledFrom([]common.Address{fresh[0], fresh[1], fresh[2], FreshMiners[0], Keys[0].Addr, AddrBouncer, AddrStore, AddrEmptyAcct}).Draw(t, "looptarget")
		v := int64(rapid.SampledFrom([]int{0, 1, 1, 1, 1000}).Draw(t, "loopvalue"))
		count := rapid.SampledFrom([]int{1, 1, 2, 14, 15, 20, 40}).Draw(t, "loopcount")
		igas := uint64(rapid.SampledFrom([]int{0, 0, 0, 2300, 30000}).Draw(t, "loopgas"))
		to, data = addr(AddrLooper), LoopData(rapid.Bool().Draw(t, "loopcallcode"), target, big.NewInt(v), uint64(count), igas)
		value = big.NewInt(v * int64(count))
		extra += 60000 + uint64(count)*(12000+igas)
	case "touch-created":
		// a contract that an earlier transaction of one of the senders deployed: called again in a later block
		var created []common.Address
		for _, kk := range keys {
			for n := uint64(0); n < c.State.GetNonce(kk.Addr) && n < 12; n++ {
				if a := crypto.CreateAddress(kk.Addr, n); c.State.GetCodeSize(a) > 0 {
					created = append(created, a)
				}
			}
		}
		if len(created) == 0 {
			data, value = InitCode(salted(t, rapid.SampledFrom([][]byte{codeStore(), codeBouncer(), codeEmit()}).Draw(t, "rt"))), smallValue()
			extra += 100000
			kind = "create"
			break
		}
		to, value = addr(rapid.SampledFrom(created).Draw(t, "createdtarget")), smallValue()
		data = Cat(Word(uint64(rapid.IntRange(0, 3).Draw(t, "slot"))), Word(uint64(rapid.IntRange(0, 2).Draw(t, "val"))))
		extra += 60000
	case "codesize":
		// what EXTCODESIZE/EXTCODECOPY say about an address a sender deploys (or may deploy, differently, on another branch) reaches the state
		kk := rapid.SampledFrom(keys).Draw(t, "deployer")
		tgt := crypto.CreateAddress(kk.Addr, uint64(rapid.IntRange(0, 5).Draw(t, "deploynonce")))
		if rapid.IntRange(0, 4).Draw(t, "zoocode") == 0 {
			tgt = rapid.SampledFrom([]common.Address{AddrStore, AddrEmit, AddrEmptyAcct, fresh[0]}).Draw(t, "sizetarget")
		}
		to, data = addr(AddrCodeSize), WordAddr(tgt)
		extra += 60000
	case "recursor":
		to = addr(AddrRecursor)
		extra += 150000
	case "bouncer":
		to, value = addr(AddrBouncer), smallValue()
		extra += 40000
	case "random-code":
		data = rapid.SliceOfN(rapid.Byte(), 1, 48).Draw(t, "code")
		extra += 50000
	}
	gas := Intrinsic(data, to == nil) + extra
	if gas > c.GasLeft {
		gas = Intrinsic(data, to == nil)
		if gas > c.GasLeft {
			return nil, kind
		}
	}
	// (the large prices put gas x price on either side of 2^64 wei for the gas limits drawn here)
	price := big.NewInt(int64(rapid.SampledFrom([]int{0, 1, 2, 1_000_000_000, 1_000_000_000, 1_000_000_000_000, 92_233_720_368_548, 878_422_366_837_000, 1_000_000_000_000_000}).Draw(t, "price")))
	bal := c.State.GetBalance(k.Addr)
	fee := new(big.Int).Mul(price, new(big.Int).SetUint64(gas))
	if fee.Cmp(bal) > 0 {
		price, fee = big.NewInt(0), big.NewInt(0)
	}
	if new(big.Int).Add(fee, value).Cmp(bal) > 0 {
		value = big.NewInt(0)
	}
	return SignedTx(c.Config, c.Num, k, c.State.GetNonce(k.Addr), to, value, gas, price, data), kind
}
