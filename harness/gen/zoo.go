package gen

import (
	"math/big"

	"gitlab.com/aquachain/aquachain/common"
)

// The contract zoo: small hand-assembled programs, pre-deployed in genesis at
// fixed addresses. All parameters are 32-byte call-data words.

var (
	AddrStore      = common.HexToAddress("0x0000000000000000000000000000000000001001") // SSTORE(w0, w1)
	AddrMultiStore = common.HexToAddress("0x0000000000000000000000000000000000001002") // for i<w1: SSTORE(w0+i, w2)
	AddrEmit       = common.HexToAddress("0x0000000000000000000000000000000000001003") // LOG<w0>(data=w5; topics w1..w4)
	AddrReverter   = common.HexToAddress("0x0000000000000000000000000000000000001004") // SSTORE, LOG0, REVERT
	AddrOOG        = common.HexToAddress("0x0000000000000000000000000000000000001005") // infinite loop
	AddrInvalid    = common.HexToAddress("0x0000000000000000000000000000000000001006") // SSTORE then 0xfe
	AddrForwarder  = common.HexToAddress("0x0000000000000000000000000000000000001007") // w0 kind, w1 to, w2 value, w3 gas(0=all), rest = inner data
	AddrCreator    = common.HexToAddress("0x0000000000000000000000000000000000001008") // CREATE(value=w0, code=rest); SSTORE(2, addr)
	AddrSuicide    = common.HexToAddress("0x0000000000000000000000000000000000001009") // SELFDESTRUCT(w0)
	AddrRecursor   = common.HexToAddress("0x000000000000000000000000000000000000100a") // SSTORE(3,+1); CALL self with all gas
	AddrBouncer    = common.HexToAddress("0x000000000000000000000000000000000000100b") // sends CALLVALUE back to CALLER
	AddrForwarder2 = common.HexToAddress("0x000000000000000000000000000000000000100c") // second forwarder (for nesting)
	AddrSuicide2   = common.HexToAddress("0x000000000000000000000000000000000000100d") // second self-destructor
	AddrEmptyAcct  = common.HexToAddress("0x000000000000000000000000000000000000100e") // exists in genesis with nonce 1 only
	AddrCallFail   = common.HexToAddress("0x000000000000000000000000000000000000100f") // CALL(w0, value w1, data rest), SSTORE, then INVALID
	AddrBlockhash  = common.HexToAddress("0x0000000000000000000000000000000000001010") // SSTORE(w0, BLOCKHASH(NUMBER - w0)); LOG1(topic = that hash)
	AddrCodeSize   = common.HexToAddress("0x0000000000000000000000000000000000001012") // SSTORE(1, EXTCODESIZE(w0)); SSTORE(2, first word of EXTCODECOPY(w0)); LOG1(topic = size)
	AddrLooper     = common.HexToAddress("0x0000000000000000000000000000000000001011") // w3 times: CALL (w0=0) or CALLCODE (w0!=0) to w1 with value w2 and gas w4; then stack churn and SSTORE(4,1)
)

// FreshMiners are coinbase addresses that hold nothing at genesis.
var FreshMiners = []common.Address{
	common.HexToAddress("0x00000000000000000000000000000000c01b0001"),
	common.HexToAddress("0x00000000000000000000000000000000c01b0002"),
}

const (
	KindCall         = 0
	KindCallCode     = 1
	KindDelegateCall = 2
	KindStaticCall   = 3
)

func codeStore() []byte {
	return NewAsm().Push(32).Op(CALLDATALOAD).Push(0).Op(CALLDATALOAD, SSTORE, STOP).Bytes()
}

func codeMultiStore() []byte {
	a := NewAsm()
	a.Push(0)
	a.Label("loop")
	a.Op(DUP1).Push(32).Op(CALLDATALOAD, SWAP1, LT, ISZERO).JumpI("end")
	a.Push(64).Op(CALLDATALOAD)
	a.Op(DUP2).Push(0).Op(CALLDATALOAD, ADD, SSTORE)
	a.Push(1).Op(ADD).Jump("loop")
	a.Label("end").Op(STOP)
	return a.Bytes()
}

func codeEmit() []byte {
	a := NewAsm()
	a.Push(160).Op(CALLDATALOAD).Push(0).Op(MSTORE)
	a.Push(0).Op(CALLDATALOAD)
	for n := 0; n < 4; n++ {
		a.Op(DUP1).Push(uint64(n)).Op(EQ).JumpI([]string{"l0", "l1", "l2", "l3"}[n])
	}
	a.Jump("l4")
	for n := 0; n <= 4; n++ {
		a.Label([]string{"l0", "l1", "l2", "l3", "l4"}[n])
		for k := n; k >= 1; k-- {
			a.Push(uint64(32 * k)).Op(CALLDATALOAD)
		}
		a.Push(32).Push(0).Op(LOG0 + byte(n)).Op(STOP)
	}
	return a.Bytes()
}

func codeReverter() []byte {
	return NewAsm().Push(1).Push(7).Op(SSTORE).Push(0).Push(0).Op(LOG0).Push(0).Push(0).Op(REVERT).Bytes()
}

func codeOOG() []byte { return NewAsm().Label("l").Jump("l").Bytes() }

func codeInvalid() []byte { return NewAsm().Push(1).Push(7).Op(SSTORE).Op(INVALID).Bytes() }

func codeForwarder() []byte {
	a := NewAsm()
	a.Push(128).Op(CALLDATASIZE, SUB)                  // [sz]
	a.Op(DUP1).Push(128).Push(0).Op(CALLDATACOPY)      // [sz]
	a.Push(96).Op(CALLDATALOAD, DUP1).JumpI("havegas") // [sz,g]
	a.Op(POP, GAS)
	a.Label("havegas")
	a.Push(0).Op(CALLDATALOAD) // [sz,g,kind]
	a.Op(DUP1).Push(KindCallCode).Op(EQ).JumpI("callcode")
	a.Op(DUP1).Push(KindDelegateCall).Op(EQ).JumpI("delegate")
	a.Op(DUP1).Push(KindStaticCall).Op(EQ).JumpI("static")
	// CALL
	a.Op(POP).Push(0).Push(0).Op(DUP4).Push(0).Push(64).Op(CALLDATALOAD).Push(32).Op(CALLDATALOAD).Op(0x86, CALL).Jump("done")
	a.Label("callcode")
	a.Op(POP).Push(0).Push(0).Op(DUP4).Push(0).Push(64).Op(CALLDATALOAD).Push(32).Op(CALLDATALOAD).Op(0x86, CALLCODE).Jump("done")
	a.Label("delegate")
	a.Op(POP).Push(0).Push(0).Op(DUP4).Push(0).Push(32).Op(CALLDATALOAD).Op(0x85, DELEGATECALL).Jump("done")
	a.Label("static")
	a.Op(POP).Push(0).Push(0).Op(DUP4).Push(0).Push(32).Op(CALLDATALOAD).Op(0x85, STATICCALL)
	a.Label("done") // [sz,g,success]
	a.Push(1).Op(ADD).Push(1).Op(SSTORE, STOP)
	return a.Bytes()
}

func codeCreator() []byte {
	a := NewAsm()
	a.Push(32).Op(CALLDATASIZE, SUB)             // [sz]
	a.Op(DUP1).Push(32).Push(0).Op(CALLDATACOPY) // [sz]
	a.Push(0).Push(0).Op(CALLDATALOAD, CREATE)   // [addr]
	a.Push(2).Op(SSTORE, STOP)
	return a.Bytes()
}

func codeSuicide() []byte { return NewAsm().Push(0).Op(CALLDATALOAD, SELFDESTRUCT).Bytes() }

func codeRecursor() []byte {
	a := NewAsm()
	a.Push(3).Op(SLOAD).Push(1).Op(ADD).Push(3).Op(SSTORE)
	a.Push(0).Push(0).Push(0).Push(0).Push(0).Op(ADDRESS, GAS, CALL, POP, STOP)
	return a.Bytes()
}

func codeBouncer() []byte {
	return NewAsm().Push(0).Push(0).Push(0).Push(0).Op(CALLVALUE, CALLER).Push(0).Op(CALL, POP, STOP).Bytes()
}

func codeCallFail() []byte {
	a := NewAsm()
	a.Push(64).Op(CALLDATASIZE, SUB)             // [sz]
	a.Op(DUP1).Push(64).Push(0).Op(CALLDATACOPY) // [sz]
	a.Push(0).Push(0).Op(DUP3).Push(0).Push(32).Op(CALLDATALOAD).Push(0).Op(CALLDATALOAD, GAS, CALL, POP)
	a.Push(1).Push(5).Op(SSTORE, INVALID)
	return a.Bytes()
}

func codeBlockhash() []byte {
	a := NewAsm()
	// h = BLOCKHASH(NUMBER - w0)
	a.Push(0).Op(CALLDATALOAD, NUMBER, SUB, BLOCKHASH) // [h]
	a.Op(DUP1).Push(0).Op(CALLDATALOAD, SSTORE)        // SSTORE(w0, h)  [h]
	a.Push(0).Push(0).Op(LOG0+1, STOP)                 // LOG1(0,0,h)
	return a.Bytes()
}

// codeCodeSize records what the node says about another account's code.
func codeCodeSize() []byte {
	a := NewAsm()
	a.Push(0).Op(CALLDATALOAD, EXTCODESIZE)   // [size]
	a.Op(DUP1).Push(1).Op(SSTORE)              // SSTORE(1, size)  [size]
	a.Push(32).Push(0).Push(0).Push(0).Op(CALLDATALOAD, 0x3c) // EXTCODECOPY(addr, 0, 0, 32)
	a.Push(0).Op(MLOAD).Push(2).Op(SSTORE)     // SSTORE(2, mem[0:32])
	a.Push(0).Push(0).Op(LOG0+1, STOP)         // LOG1(0,0,size)
	return a.Bytes()
}

// codeLooper repeats a value-bearing CALL or CALLCODE and keeps computing afterwards.
func codeLooper() []byte {
	a := NewAsm()
	a.Push(96).Op(CALLDATALOAD) // [i]
	a.Label("loop")
	a.Op(DUP1, ISZERO).JumpI("end")
	a.Push(0).Push(0).Push(0).Push(0)
	a.Push(64).Op(CALLDATALOAD)  // value
	a.Push(32).Op(CALLDATALOAD)  // to
	a.Push(128).Op(CALLDATALOAD) // gas
	a.Push(0).Op(CALLDATALOAD).JumpI("cc")
	a.Op(CALL).Jump("after")
	a.Label("cc").Op(CALLCODE)
	a.Label("after") // [i, success]
	a.Op(POP).Push(1).Op(SWAP1, SUB).Jump("loop")
	a.Label("end")
	for k := 0; k < 10; k++ { // work that recycles the interpreter's integer pool after the calls
		a.PushBytes(bytes32(byte(0x11 * (k%7 + 1)))).Op(POP)
	}
	a.Push(1).Push(4).Op(SSTORE, STOP)
	return a.Bytes()
}

func bytes32(b byte) []byte {
	out := make([]byte, 32)
	for i := range out {
		out[i] = b
	}
	return out
}

// LoopData is the call data for AddrLooper.
func LoopData(callcode bool, to common.Address, value *big.Int, count, gas uint64) []byte {
	k := uint64(0)
	if callcode {
		k = 1
	}
	return Cat(Word(k), WordAddr(to), WordBig(value), Word(count), Word(gas))
}

// ZooCode maps each zoo address to its runtime code.
func ZooCode() map[common.Address][]byte {
	return map[common.Address][]byte{
		AddrStore: codeStore(), AddrMultiStore: codeMultiStore(), AddrEmit: codeEmit(), AddrReverter: codeReverter(),
		AddrOOG: codeOOG(), AddrInvalid: codeInvalid(), AddrForwarder: codeForwarder(), AddrCreator: codeCreator(),
		AddrSuicide: codeSuicide(), AddrRecursor: codeRecursor(), AddrBouncer: codeBouncer(),
		AddrForwarder2: codeForwarder(), AddrSuicide2: codeSuicide(), AddrCallFail: codeCallFail(), AddrBlockhash: codeBlockhash(), AddrLooper: codeLooper(), AddrCodeSize: codeCodeSize(),
	}
}

// Word returns v as a 32-byte big-endian word.
func Word(v uint64) []byte { return common.LeftPadBytes(new(big.Int).SetUint64(v).Bytes(), 32) }

func WordBig(v *big.Int) []byte { return common.LeftPadBytes(v.Bytes(), 32) }

func WordAddr(a common.Address) []byte { return common.LeftPadBytes(a[:], 32) }

// Cat concatenates byte slices.
func Cat(parts ...[]byte) []byte {
	var out []byte
	for _, p := range parts {
		out = append(out, p...)
	}
	return out
}

// ForwardData builds call data for the forwarder.
func ForwardData(kind int, to common.Address, value *big.Int, gas uint64, inner []byte) []byte {
	return Cat(Word(uint64(kind)), WordAddr(to), WordBig(value), Word(gas), inner)
}

// EmitData builds call data for the emitter.
func EmitData(n int, topics [4]common.Hash, data common.Hash) []byte {
	return Cat(Word(uint64(n)), topics[0][:], topics[1][:], topics[2][:], topics[3][:], data[:])
}
