package gen

import (
	"math/big"
	"time"

	"gitlab.com/aquachain/aquachain/common"
	"gitlab.com/aquachain/aquachain/core/vm"
)

// FrameTracer is a vm.Tracer that reconstructs call frames from the step
// stream and tells which SELFDESTRUCTs survive (are not inside a frame that
// ended in error). A frame has failed iff the interpreter reported a fault at
// its depth (CaptureFault, which includes REVERT) or a step with an error.
type FrameTracer struct {
	stack     []*tframe
	nextValue bool

	ExecutedSD  int // SELFDESTRUCT instructions executed (all transactions since creation)
	SurvivingSD int // ... that were not rolled back with a failing frame
	Steps       int
	MaxDepth    int
	Creates     int
	ValueCalls  int // CALL/CALLCODE/CREATE with non-zero value
	FailedValue int // frames that were entered with value and failed
	Faults      int

	// Refund is the refund counter recomputed from the step stream for the
	// last transaction: 15000 per SSTORE that clears a non-zero slot and 24000
	// per first SELFDESTRUCT of a contract, counted only in frames that did not fail.
	Refund uint64
	// ValueTargets: addresses that were the target of a value-bearing CALL or
	// the beneficiary of a SELFDESTRUCT in the last transaction (whether or not it survived).
	ValueTargets map[common.Address]bool
	// End-of-transaction report (last transaction).
	Ended    bool
	ExecGas  uint64
	ExecErr  error
	TxSteps  int
	TxSD     int // surviving self-destructs of the last transaction

	// OnStep, if set, sees every step.
	OnStep func(pc uint64, op byte, gas, cost uint64, stack []*big.Int, memLen int, depth int, err error)
}

type tframe struct {
	failed    bool
	sd        int
	refund    uint64
	withValue bool
}

func (f *FrameTracer) sync(depth int) {
	for len(f.stack) > depth {
		child := f.stack[len(f.stack)-1]
		f.stack = f.stack[:len(f.stack)-1]
		if len(f.stack) > 0 && !child.failed {
			f.stack[len(f.stack)-1].sd += child.sd
			f.stack[len(f.stack)-1].refund += child.refund
		}
		if child.failed && child.withValue {
			f.FailedValue++
		}
	}
	for len(f.stack) < depth {
		f.stack = append(f.stack, &tframe{withValue: f.nextValue})
		f.nextValue = false
	}
	if depth > f.MaxDepth {
		f.MaxDepth = depth
	}
}

func (f *FrameTracer) CaptureStart(from, to common.Address, call bool, input []byte, gas uint64, value *big.Int) error {
	f.stack = f.stack[:0]
	f.nextValue = value != nil && value.Sign() != 0
	f.Refund, f.Ended, f.ExecGas, f.ExecErr, f.TxSteps, f.TxSD = 0, false, 0, nil, 0, 0
	f.ValueTargets = map[common.Address]bool{}
	f.sync(1)
	return nil
}

func (f *FrameTracer) CaptureState(env *vm.EVM, pc uint64, op vm.OpCode, gas, cost uint64, memory *vm.Memory, stack *vm.Stack, contract *vm.Contract, depth int, err error) error {
	f.sync(depth)
	f.nextValue = false
	f.Steps++
	f.TxSteps++
	cur := f.stack[depth-1]
	st := stack.Data()
	if err != nil {
		cur.failed = true
		f.Faults++
	} else {
		switch byte(op) {
		case SELFDESTRUCT:
			cur.sd++
			f.ExecutedSD++
			if !env.StateDB.HasSuicided(contract.Address()) {
				cur.refund += 24000
			}
			if len(st) >= 1 {
				f.ValueTargets[common.BigToAddress(st[len(st)-1])] = true
			}
		case SSTORE:
			if len(st) >= 2 {
				cur0 := env.StateDB.GetState(contract.Address(), common.BigToHash(st[len(st)-1]))
				if cur0 != (common.Hash{}) && st[len(st)-2].Sign() == 0 {
					cur.refund += 15000
				}
			}
		case CREATE:
			f.Creates++
			if len(st) >= 1 && st[len(st)-1].Sign() != 0 {
				f.ValueCalls++
				f.nextValue = true
			}
		case CALL, CALLCODE:
			if len(st) >= 3 && st[len(st)-3].Sign() != 0 {
				f.ValueCalls++
				f.nextValue = byte(op) == CALL
				if byte(op) == CALL {
					f.ValueTargets[common.BigToAddress(st[len(st)-2])] = true
				}
			}
		}
	}
	if f.OnStep != nil {
		f.OnStep(pc, byte(op), gas, cost, st, memory.Len(), depth, err)
	}
	return nil
}

func (f *FrameTracer) CaptureFault(env *vm.EVM, pc uint64, op vm.OpCode, gas, cost uint64, memory *vm.Memory, stack *vm.Stack, contract *vm.Contract, depth int, err error) error {
	f.sync(depth)
	f.stack[depth-1].failed = true
	f.Faults++
	return nil
}

func (f *FrameTracer) CaptureEnd(output []byte, gasUsed uint64, t time.Duration, err error) error {
	f.sync(1)
	if len(f.stack) == 1 {
		top := f.stack[0]
		if err != nil {
			top.failed = true
		}
		if !top.failed {
			f.SurvivingSD += top.sd
			f.TxSD = top.sd
			f.Refund = top.refund
		} else if top.withValue {
			f.FailedValue++
		}
	}
	f.stack = f.stack[:0]
	f.Ended, f.ExecGas, f.ExecErr = true, gasUsed, err
	return nil
}
