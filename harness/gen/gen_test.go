package gen

import (
	"testing"

	"gitlab.com/aquachain/aquachain/aquadb"
	"gitlab.com/aquachain/aquachain/core/state"
	"gitlab.com/aquachain/aquachain/core/types"
	"pgregory.net/rapid"
)

// Self-test of the builder: every built block must import into an independent node.
func TestBuilderSmoke(t *testing.T) {
	Quiet()
	kinds := map[string]int{}
	status := map[uint]int{}
	rapid.Check(t, func(t *rapid.T) {
		nc := rapid.SampledFrom(Configs()).Draw(t, "config")
		g := Genesis(nc.Config, 0)
		b, err := NewBuilder(g)
		if err != nil {
			t.Fatal(err)
		}
		defer b.Chain.Stop()
		n2, err := NewNode(aquadb.NewMemDatabase(), g, Archive(), nil)
		if err != nil {
			t.Fatal(err)
		}
		defer n2.Chain.Stop()
		parent := b.Chain.Genesis()
		nb := rapid.IntRange(1, 10).Draw(t, "nblocks")
		for i := 0; i < nb; i++ {
			ntx := rapid.IntRange(0, 5).Draw(t, "ntx")
			cnt := 0
			bl, err := b.Build(parent, BlockSpec{Coinbase: Keys[5].Addr, TxFn: func(st *state.StateDB, h *types.Header, gasLeft uint64) *types.Transaction {
				if cnt >= ntx {
					return nil
				}
				cnt++
				tx, kind := DrawTx(t, TxCtx{Config: nc.Config, Num: h.Number, State: st, GasLeft: gasLeft})
				kinds[kind]++
				return tx
			}})
			if err != nil {
				t.Fatal(err)
			}
			if len(bl.Skipped) > 0 {
				t.Fatalf("generator produced an invalid tx: %v", bl.Skipped)
			}
			for _, r := range bl.Receipts {
				status[r.Status]++
			}
			if _, err := n2.Chain.InsertChain(types.Blocks{bl.Block}); err != nil {
				t.Fatalf("import: %v", err)
			}
			parent = bl.Block
		}
		if n2.Chain.CurrentBlock().Hash() != parent.Hash() {
			t.Fatal("head mismatch")
		}
	})
	t.Log(kinds, status)
}
