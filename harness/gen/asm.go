// Package gen holds the generators shared by the chain-level checks: keys, a
// tiny EVM assembler, a zoo of hand-written contracts, chain configurations,
// a block builder and block-tree generators.
package gen

import (
	"encoding/binary"
	"fmt"
	"math/big"
)

// EVM opcodes used by the zoo (named independently of /repo/core/vm).
const (
	STOP           = 0x00
	ADD            = 0x01
	MUL            = 0x02
	SUB            = 0x03
	DIV            = 0x04
	LT             = 0x10
	GT             = 0x11
	EQ             = 0x14
	ISZERO         = 0x15
	AND            = 0x16
	SHA3           = 0x20
	ADDRESS        = 0x30
	BALANCE        = 0x31
	ORIGIN         = 0x32
	CALLER         = 0x33
	CALLVALUE      = 0x34
	CALLDATALOAD   = 0x35
	CALLDATASIZE   = 0x36
	CALLDATACOPY   = 0x37
	CODESIZE       = 0x38
	CODECOPY       = 0x39
	GASPRICE       = 0x3a
	EXTCODESIZE    = 0x3b
	RETURNDATASIZE = 0x3d
	BLOCKHASH      = 0x40
	COINBASE       = 0x41
	TIMESTAMP      = 0x42
	NUMBER         = 0x43
	POP            = 0x50
	MLOAD          = 0x51
	MSTORE         = 0x52
	MSTORE8        = 0x53
	SLOAD          = 0x54
	SSTORE         = 0x55
	JUMP           = 0x56
	JUMPI          = 0x57
	PC             = 0x58
	MSIZE          = 0x59
	GAS            = 0x5a
	JUMPDEST       = 0x5b
	PUSH1          = 0x60
	PUSH2          = 0x61
	PUSH32         = 0x7f
	DUP1           = 0x80
	DUP2           = 0x81
	DUP3           = 0x82
	DUP4           = 0x83
	SWAP1          = 0x90
	SWAP2          = 0x91
	LOG0           = 0xa0
	CREATE         = 0xf0
	CALL           = 0xf1
	CALLCODE       = 0xf2
	RETURN         = 0xf3
	DELEGATECALL   = 0xf4
	STATICCALL     = 0xfa
	REVERT         = 0xfd
	INVALID        = 0xfe
	SELFDESTRUCT   = 0xff
)

// Asm is a minimal assembler with labels (PUSH2-addressed jumps).
type Asm struct {
	code   []byte
	labels map[string]int
	fixups map[int]string
}

func NewAsm() *Asm { return &Asm{labels: map[string]int{}, fixups: map[int]string{}} }

// Op appends raw opcodes.
func (a *Asm) Op(ops ...byte) *Asm { a.code = append(a.code, ops...); return a }

// Push appends the shortest PUSH of v (PUSH1 0 for zero).
func (a *Asm) Push(v uint64) *Asm {
	var b [8]byte
	binary.BigEndian.PutUint64(b[:], v)
	i := 0
	for i < 7 && b[i] == 0 {
		i++
	}
	return a.PushBytes(b[i:])
}

// PushBytes appends PUSHn with the given 1..32 bytes.
func (a *Asm) PushBytes(b []byte) *Asm {
	if len(b) == 0 || len(b) > 32 {
		panic(fmt.Sprintf("PushBytes: bad length %d", len(b)))
	}
	a.code = append(a.code, PUSH1+byte(len(b)-1))
	a.code = append(a.code, b...)
	return a
}

func (a *Asm) PushBig(v *big.Int) *Asm {
	b := v.Bytes()
	if len(b) == 0 {
		b = []byte{0}
	}
	return a.PushBytes(b)
}

// Label defines a jump destination here (emits JUMPDEST).
func (a *Asm) Label(name string) *Asm {
	a.labels[name] = len(a.code)
	a.code = append(a.code, JUMPDEST)
	return a
}

// PushLabel pushes the address of a label (PUSH2).
func (a *Asm) PushLabel(name string) *Asm {
	a.code = append(a.code, PUSH2, 0, 0)
	a.fixups[len(a.code)-2] = name
	return a
}

func (a *Asm) Jump(name string) *Asm  { return a.PushLabel(name).Op(JUMP) }
func (a *Asm) JumpI(name string) *Asm { return a.PushLabel(name).Op(JUMPI) }

// Bytes resolves labels and returns the code.
func (a *Asm) Bytes() []byte {
	out := append([]byte{}, a.code...)
	for pos, name := range a.fixups {
		addr, ok := a.labels[name]
		if !ok {
			panic("undefined label " + name)
		}
		binary.BigEndian.PutUint16(out[pos:], uint16(addr))
	}
	return out
}

// InitCode wraps runtime code in a constructor that returns it.
func InitCode(runtime []byte) []byte { return InitCodePrefix(nil, runtime) }

// InitCodePrefix is InitCode with constructor instructions run first.
func InitCodePrefix(prefix, runtime []byte) []byte {
	n := len(runtime)
	off := len(prefix) + 15
	hdr := []byte{PUSH2, byte(n >> 8), byte(n), PUSH2, byte(off >> 8), byte(off), PUSH1, 0, CODECOPY,
		PUSH2, byte(n >> 8), byte(n), PUSH1, 0, RETURN}
	out := append(append([]byte{}, prefix...), hdr...)
	return append(out, runtime...)
}
