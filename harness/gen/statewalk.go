package gen

import (
	"bytes"
	"fmt"
	"math/big"
	"sort"

	"gitlab.com/aquachain/aquachain/common"
	"gitlab.com/aquachain/aquachain/trie"
	"verifharness/ref/refmpt"
	"verifharness/ref/refrlp"
)

// Acct is one account as found by a complete walk of a state trie. Keys are
// the hashed forms stored in the tries (no preimages needed).
type Acct struct {
	Hashed      common.Hash // keccak(address)
	Nonce       uint64
	Balance     *big.Int
	StorageRoot []byte
	CodeHash    []byte
	Storage     map[common.Hash][]byte // keccak(slot) -> rlp(value)
	Code        []byte
	Raw         []byte // the account's RLP as stored
}

// WorldState is the full content of a state root.
type WorldState struct {
	Root  common.Hash
	Accts map[common.Hash]*Acct
}

var emptyCodeHash = refmpt.Keccak(nil)

// WalkState iterates the whole state below root (accounts, every storage
// trie, every code blob) through the given trie database and fails on any
// missing node. The account encoding is parsed with the reference RLP codec.
func WalkState(tdb *trie.Database, root common.Hash) (*WorldState, error) {
	w := &WorldState{Root: root, Accts: map[common.Hash]*Acct{}}
	tr, err := trie.New(root, tdb)
	if err != nil {
		return nil, fmt.Errorf("open state root %x: %v", root, err)
	}
	nit := tr.NodeIterator(nil)
	it := trie.NewIterator(nit)
	for it.Next() {
		item, err := refrlp.DecodeExact(it.Value)
		if err != nil || !item.IsList || len(item.List) != 4 {
			return nil, fmt.Errorf("account %x: malformed encoding %x", it.Key, it.Value)
		}
		a := &Acct{Hashed: common.BytesToHash(it.Key), Raw: append([]byte{}, it.Value...),
			Nonce: new(big.Int).SetBytes(item.List[0].Bytes).Uint64(), Balance: new(big.Int).SetBytes(item.List[1].Bytes),
			StorageRoot: item.List[2].Bytes, CodeHash: item.List[3].Bytes, Storage: map[common.Hash][]byte{}}
		if !bytes.Equal(a.StorageRoot, refmpt.EmptyRoot) {
			st, err := trie.New(common.BytesToHash(a.StorageRoot), tdb)
			if err != nil {
				return nil, fmt.Errorf("account %x: open storage root %x: %v", it.Key, a.StorageRoot, err)
			}
			snit := st.NodeIterator(nil)
			sit := trie.NewIterator(snit)
			for sit.Next() {
				a.Storage[common.BytesToHash(sit.Key)] = append([]byte{}, sit.Value...)
			}
			if snit.Error() != nil {
				return nil, fmt.Errorf("account %x: storage walk: %v", it.Key, snit.Error())
			}
		}
		if !bytes.Equal(a.CodeHash, emptyCodeHash) {
			code, err := tdb.Node(common.BytesToHash(a.CodeHash))
			if err != nil || len(code) == 0 {
				return nil, fmt.Errorf("account %x: code %x missing: %v", it.Key, a.CodeHash, err)
			}
			if !bytes.Equal(refmpt.Keccak(code), a.CodeHash) {
				return nil, fmt.Errorf("account %x: code blob does not hash to %x", it.Key, a.CodeHash)
			}
			a.Code = code
		}
		w.Accts[a.Hashed] = a
	}
	if nit.Error() != nil {
		return nil, fmt.Errorf("state walk below %x: %v", root, nit.Error())
	}
	return w, nil
}

// Sum is the sum of all balances.
func (w *WorldState) Sum() *big.Int {
	s := new(big.Int)
	for _, a := range w.Accts {
		s.Add(s, a.Balance)
	}
	return s
}

// RefRoot recomputes the state root from the walked content with the
// independent Merkle-Patricia reference: every storage root from the storage
// content, the account encoding rebuilt from its fields, the account trie from
// those.
func (w *WorldState) RefRoot() (common.Hash, error) {
	m := map[string][]byte{}
	for h, a := range w.Accts {
		sm := map[string][]byte{}
		for k, v := range a.Storage {
			sm[string(k[:])] = v
		}
		sroot := refmpt.Root(sm)
		if !bytes.Equal(sroot, a.StorageRoot) {
			return common.Hash{}, fmt.Errorf("account %x: storage root %x, reference root of its %d slots %x", h, a.StorageRoot, len(a.Storage), sroot)
		}
		enc := refrlp.Encode(refrlp.L(refrlp.U(a.Nonce), refrlp.Big(a.Balance), refrlp.B(sroot), refrlp.B(a.CodeHash)))
		if !bytes.Equal(enc, a.Raw) {
			return common.Hash{}, fmt.Errorf("account %x: stored encoding %x is not the canonical encoding %x", h, a.Raw, enc)
		}
		m[string(h[:])] = enc
	}
	return common.BytesToHash(refmpt.Root(m)), nil
}

// HashedAddr is keccak(address).
func HashedAddr(a common.Address) common.Hash { return common.BytesToHash(refmpt.Keccak(a[:])) }

// HashedSlot is keccak(slot).
func HashedSlot(s common.Hash) common.Hash { return common.BytesToHash(refmpt.Keccak(s[:])) }

// Get returns the account at address (nil if absent).
func (w *WorldState) Get(a common.Address) *Acct { return w.Accts[HashedAddr(a)] }

// BalanceOf returns the balance at address (0 if absent).
func (w *WorldState) BalanceOf(a common.Address) *big.Int {
	if x := w.Get(a); x != nil {
		return x.Balance
	}
	return new(big.Int)
}

// NonceOf returns the nonce at address (0 if absent).
func (w *WorldState) NonceOf(a common.Address) uint64 {
	if x := w.Get(a); x != nil {
		return x.Nonce
	}
	return 0
}

// Diff lists the hashed addresses whose account differs between two states
// (present/absent, nonce, balance, storage, code), sorted.
func Diff(a, b *WorldState) []common.Hash {
	seen := map[common.Hash]bool{}
	var out []common.Hash
	for h, x := range a.Accts {
		y := b.Accts[h]
		if y == nil || !bytes.Equal(x.Raw, y.Raw) {
			out = append(out, h)
		}
		seen[h] = true
	}
	for h := range b.Accts {
		if !seen[h] {
			out = append(out, h)
		}
	}
	sort.Slice(out, func(i, j int) bool { return bytes.Compare(out[i][:], out[j][:]) < 0 })
	return out
}
