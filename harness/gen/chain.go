package gen

import (
	"context"
	"fmt"
	"math/big"

	"github.com/btcsuite/btcd/btcec/v2"
	"gitlab.com/aquachain/aquachain/aquadb"
	"gitlab.com/aquachain/aquachain/common"
	"gitlab.com/aquachain/aquachain/common/log"
	"gitlab.com/aquachain/aquachain/consensus"
	"gitlab.com/aquachain/aquachain/consensus/aquahash"
	"gitlab.com/aquachain/aquachain/consensus/misc"
	"gitlab.com/aquachain/aquachain/core"
	"gitlab.com/aquachain/aquachain/core/state"
	"gitlab.com/aquachain/aquachain/core/types"
	"gitlab.com/aquachain/aquachain/core/vm"
	"gitlab.com/aquachain/aquachain/crypto"
	"gitlab.com/aquachain/aquachain/params"
)

// Quiet silences the node's logger (call from TestMain or init).
func Quiet() { log.Root().SetHandler(log.DiscardHandler()) }

// Key is a funded test account.
type Key struct {
	Priv *btcec.PrivateKey
	Addr common.Address
}

// Keys is a fixed pool of secp256k1 keys (scalars include ones with leading
// zero bytes and ones close to the group order).
var Keys []Key

func init() {
	scalars := []string{
		"b71c71a67e1177ad4e901695e1b4b9ee17ae16c6668d313eac2f96dbcda3f291",
		"8a1f9a8f95be41cd7ccb6168179afb4504aefe388d1e14474d32c45c72ce7b7a",
		"49a7b37aa6f6645917e7b807e9d1c00d4fa71f18343b0d4122a4d2df64dd6fee",
		"0000000000000000000000000000000000000000000000000000000000000002",
		"00000000000000000000000000000000000000000000000000000000000f4240",
		"0000a7b37aa6f6645917e7b807e9d1c00d4fa71f18343b0d4122a4d2df64dd6f",
		"fffffffffffffffffffffffffffffffebaaedce6af48a03bbfd25e8cd0364140", // n-1
		"fffffffffffffffffffffffffffffffebaaedce6af48a03bbfd25e8cd0364000",
	}
	for _, s := range scalars {
		k, err := crypto.HexToBtcec(s)
		if err != nil {
			panic(err)
		}
		Keys = append(Keys, Key{Priv: k, Addr: crypto.PubkeyToAddress(k.PubKey())})
	}
}

// ---------- chain configurations ----------

func fm(pairs ...int64) params.ForkMap {
	m := params.ForkMap{}
	for i := 0; i+1 < len(pairs); i += 2 {
		m[int(pairs[i])] = big.NewInt(pairs[i+1])
	}
	return m
}

func cfg(chainID int64, hf params.ForkMap, eip155, byz *big.Int) *params.ChainConfig {
	return &params.ChainConfig{
		ChainId: big.NewInt(chainID), HomesteadBlock: big.NewInt(0), EIP150Block: big.NewInt(0),
		EIP155Block: eip155, EIP158Block: eip155, ByzantiumBlock: byz,
		Aquahash: new(params.AquahashConfig), HF: hf,
	}
}

// NamedConfig is a chain configuration with a label for evidence.
type NamedConfig struct {
	Name   string
	Config *params.ChainConfig
}

// Configs returns the chain configurations used by the chain-level checks.
func Configs() []NamedConfig {
	return []NamedConfig{
		// forks 1..7 at heights 1..7 (the repository's own test schedule; no EIP155/Byzantium)
		{"test-hf1-7", params.TestChainConfig},
		// spread-out forks with HF5 early and HF7 = EIP155/158/Byzantium at 6
		{"spread", cfg(1401, fm(1, 1, 2, 2, 3, 2, 4, 4, 5, 3, 6, 5, 7, 6), big.NewInt(6), big.NewInt(6))},
		// testnet2-like: HF5..7 at genesis, HF8 at 8, HF9 at 19 (header versions 2,3,4)
		{"testnet2-like", cfg(1402, fm(5, 0, 6, 0, 7, 0, 8, 8, 9, 19), big.NewInt(0), big.NewInt(0))},
		// HF2+HF5 at genesis: difficulty moves by parent/16 per block (steep)
		{"steep", cfg(1403, fm(2, 0, 5, 0), nil, nil)},
		// no forks at all, non-mainnet id
		{"nofork", cfg(1404, nil, nil, nil)},
		// everything at genesis including Byzantium
		{"all-at-0", cfg(1405, fm(1, 0, 2, 0, 3, 0, 4, 0, 5, 0, 6, 0, 7, 0), big.NewInt(0), big.NewInt(0))},
	}
}

func ConfigByName(name string) NamedConfig {
	for _, c := range Configs() {
		if c.Name == name {
			return c
		}
	}
	panic("unknown config " + name)
}

// ---------- genesis ----------

// Ether is 10^18.
var Ether = new(big.Int).Exp(big.NewInt(10), big.NewInt(18), nil)

// DeallocAddr is one address on the HF4 de-allocation list.
var DeallocAddr = common.HexToAddress(misc.DeallocListHF4[0])

// Genesis returns a genesis with the key pool funded and the zoo deployed.
func Genesis(config *params.ChainConfig, gasLimit uint64) *core.Genesis {
	alloc := core.GenesisAlloc{}
	for _, k := range Keys {
		alloc[k.Addr] = core.GenesisAccount{Balance: new(big.Int).Mul(big.NewInt(1_000_000), Ether)}
	}
	for a, code := range ZooCode() {
		alloc[a] = core.GenesisAccount{Balance: new(big.Int).Mul(big.NewInt(10), Ether), Code: code, Nonce: 1}
	}
	alloc[AddrEmptyAcct] = core.GenesisAccount{Balance: new(big.Int), Nonce: 1}
	// one funded address of the HF4 de-allocation list
	alloc[DeallocAddr] = core.GenesisAccount{Balance: new(big.Int).Mul(big.NewInt(7), Ether)}
	if gasLimit == 0 {
		gasLimit = 8_000_000
	}
	return &core.Genesis{Config: config, GasLimit: gasLimit, Difficulty: big.NewInt(1 << 30), Alloc: alloc, Timestamp: 1_500_000_000}
}

// ---------- nodes ----------

// Node is a BlockChain on its own database.
type Node struct {
	DB     aquadb.Database
	Chain  *core.BlockChain
	Config *params.ChainConfig
	Cache  *core.CacheConfig
	Engine consensus.Engine
}

// Archive / Pruning cache configurations.
func Archive() *core.CacheConfig { return &core.CacheConfig{Disabled: true} }
func Pruning() *core.CacheConfig {
	return &core.CacheConfig{TrieNodeLimit: 256, TrieTimeLimit: 5 * 60 * 1e9}
}
func PruningEager() *core.CacheConfig { return &core.CacheConfig{TrieNodeLimit: 0, TrieTimeLimit: 0} }

// NewNode commits genesis to db (if db has none) and opens a chain on it.
func NewNode(db aquadb.Database, g *core.Genesis, cache *core.CacheConfig, engine consensus.Engine) (*Node, error) {
	if engine == nil {
		engine = aquahash.NewFaker()
	}
	if core.GetCanonicalHash(db, 0) == (common.Hash{}) {
		if _, err := g.Commit(db); err != nil {
			return nil, err
		}
	}
	bc, err := core.NewBlockChain(context.Background(), db, cache, g.Config, engine, vm.Config{})
	if err != nil {
		return nil, err
	}
	return &Node{DB: db, Chain: bc, Config: g.Config, Cache: cache, Engine: engine}, nil
}

// Restart stops the chain and reopens it on the same database.
func (n *Node) Restart() error {
	n.Chain.Stop()
	bc, err := core.NewBlockChain(context.Background(), n.DB, n.Cache, n.Config, n.Engine, vm.Config{})
	if err != nil {
		return err
	}
	n.Chain = bc
	return nil
}

// ---------- block builder ----------

// Builder builds blocks on an archive chain of its own, so that any built
// block can be a parent. It mirrors what core.GenerateChain does but keeps the
// state database in the harness' hands: transactions that are consensus-invalid
// are rolled back and skipped instead of corrupting the block under construction.
type Builder struct {
	*Node
	Genesis *core.Genesis
}

func NewBuilder(g *core.Genesis) (*Builder, error) {
	n, err := NewNode(aquadb.NewMemDatabase(), g, Archive(), nil)
	if err != nil {
		return nil, err
	}
	return &Builder{Node: n, Genesis: g}, nil
}

// BlockSpec describes one block to build.
type BlockSpec struct {
	TimeDelta int64 // seconds after the parent (>0); 0 means 240
	Coinbase  common.Address
	Extra     []byte
	Txs       []*types.Transaction // tried in order; invalid ones are skipped
	Uncles    []*types.Header
	// TxFn, if set, is called with the live state to produce transactions one
	// at a time (return nil to stop); it sees the effects of earlier ones.
	TxFn func(st *state.StateDB, header *types.Header, gasLeft uint64) *types.Transaction
}

// Built is the result of building a block.
type Built struct {
	Block      *types.Block
	Receipts   types.Receipts
	Skipped    []error // consensus errors of TxFn transactions that were skipped
	SkippedTxs []error // consensus errors of offered spec.Txs that were skipped
}

// Build assembles a block on parent, executes it on the builder's own archive
// chain (InsertChain) and returns it.
func (b *Builder) Build(parent *types.Block, spec BlockSpec) (*Built, error) {
	config := b.Config
	statedb, err := state.New(parent.Root(), state.NewDatabase(b.DB))
	if err != nil {
		return nil, fmt.Errorf("builder: parent state: %v", err)
	}
	delta := spec.TimeDelta
	if delta <= 0 {
		delta = 240
	}
	num := new(big.Int).Add(parent.Number(), common.Big1)
	tm := new(big.Int).Add(parent.Time(), big.NewInt(delta))
	ph := parent.Header()
	ph.Version = config.GetBlockVersion(ph.Number)
	header := &types.Header{
		ParentHash: parent.Hash(),
		Coinbase:   spec.Coinbase,
		Difficulty: b.Engine.CalcDifficulty(b.Chain, tm.Uint64(), ph, nil),
		GasLimit:   core.CalcGasLimit(parent),
		Number:     num,
		Time:       tm,
		Extra:      spec.Extra,
		Version:    config.GetBlockVersion(num),
	}
	if hf4 := config.GetHF(4); hf4 != nil && hf4.Cmp(num) == 0 {
		misc.ApplyHardFork4(statedb)
	}
	if hf5 := config.GetHF(5); hf5 != nil && hf5.Cmp(num) == 0 {
		misc.ApplyHardFork5(statedb)
	}
	gp := new(core.GasPool).AddGas(header.GasLimit)
	var (
		txs      []*types.Transaction
		receipts types.Receipts
		skipped  []error
	)
	try := func(tx *types.Transaction) {
		snap := statedb.Snapshot()
		gpBefore := *gp
		usedBefore := header.GasUsed
		statedb.Prepare(tx.Hash(), common.Hash{}, len(txs))
		receipt, _, err := core.ApplyTransaction(config, b.Chain, &header.Coinbase, gp, statedb, header, tx, &header.GasUsed, vm.Config{})
		if err != nil {
			statedb.RevertToSnapshot(snap)
			*gp = gpBefore
			header.GasUsed = usedBefore
			skipped = append(skipped, err)
			return
		}
		txs = append(txs, tx)
		receipts = append(receipts, receipt)
	}
	for _, tx := range spec.Txs {
		try(tx)
	}
	skippedTxs := skipped // offered transactions may legitimately not fit; generated ones must
	skipped = nil
	if spec.TxFn != nil {
		for i := 0; i < 64; i++ {
			tx := spec.TxFn(statedb, header, gp.Gas())
			if tx == nil {
				break
			}
			try(tx)
		}
	}
	uncles := make([]*types.Header, len(spec.Uncles))
	for i, u := range spec.Uncles {
		uncles[i] = types.CopyHeader(u)
	}
	block, err := b.Engine.Finalize(b.Chain, header, statedb, txs, uncles, receipts)
	if err != nil {
		return nil, err
	}
	if _, err := b.Chain.InsertChain(types.Blocks{block}); err != nil {
		return nil, fmt.Errorf("builder: own block %d rejected by InsertChain: %v", num, err)
	}
	return &Built{Block: block, Receipts: receipts, Skipped: skipped, SkippedTxs: skippedTxs}, nil
}

// SignedTx builds and signs a transaction with the signer active at height num.
func SignedTx(config *params.ChainConfig, num *big.Int, k Key, nonce uint64, to *common.Address, value *big.Int, gas uint64, price *big.Int, data []byte) *types.Transaction {
	var tx *types.Transaction
	if to == nil {
		tx = types.NewContractCreation(nonce, value, gas, price, data)
	} else {
		tx = types.NewTransaction(nonce, *to, value, gas, price, data)
	}
	signed, err := types.SignTx(tx, types.MakeSigner(config, num), k.Priv)
	if err != nil {
		panic(err)
	}
	return signed
}
