package c05

import (
	"math/big"
	"testing"

	"gitlab.com/aquachain/aquachain/aquadb"
	"gitlab.com/aquachain/aquachain/common"
	"gitlab.com/aquachain/aquachain/core/state"
	"verifharness/ev"
)

// keyLostCredit: the state-level defect recorded for C09 as
// touch-revert-disarms-dirty-tracking, seen from C05: an account that exists
// empty in the trie (a relic from before EIP-158) is touched by a zero-value
// call inside a frame that is reverted and is credited later in the same
// block; the credit shows in the live state but never reaches the trie, so
// the coins vanish without any self-destruct.
const keyLostCredit = "credit-to-preexisting-empty-account-lost-after-reverted-touch"

// TestKnownWitness re-runs the fixed witness and prints the KNOWN-FINDING line
// while it still reproduces.
func TestKnownWitness(t *testing.T) {
	if !ev.Known(keyLostCredit) {
		return
	}
	db := state.NewDatabase(aquadb.NewMemDatabase())
	st, _ := state.New(common.Hash{}, db)
	a, b := common.HexToAddress("0xa1"), common.HexToAddress("0xb2")
	st.CreateAccount(a) // empty, but present in the trie (committed without the EIP-158 sweep)
	st.AddBalance(b, big.NewInt(100))
	root, err := st.Commit(false)
	if err != nil {
		t.Fatal(err)
	}
	st, _ = state.New(root, db)
	snap := st.Snapshot()
	st.AddBalance(a, new(big.Int)) // the zero-value touch ...
	st.RevertToSnapshot(snap)      // ... in a frame that fails
	st.SubBalance(b, big.NewInt(5))
	st.AddBalance(a, big.NewInt(5)) // a real payment later in the block
	root2, err := st.Commit(true)
	if err != nil {
		t.Fatal(err)
	}
	re, _ := state.New(root2, db)
	if st.GetBalance(a).Int64() == 5 && re.GetBalance(a).Sign() == 0 && re.GetBalance(b).Int64() == 95 {
		ev.KnownFinding(keyLostCredit)
	}
}
