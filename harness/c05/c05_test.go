// C05 — Coins are created only by the block reward schedule.
//
// Oracle: conservation equation over complete state walks (independent
// summation of all balances before and after a block / a transaction).
package c05

import (
	"fmt"
	"math/big"
	"strings"
	"testing"
	"time"

	"gitlab.com/aquachain/aquachain/common"
	"gitlab.com/aquachain/aquachain/consensus/misc"
	"gitlab.com/aquachain/aquachain/core"
	"gitlab.com/aquachain/aquachain/core/state"
	"gitlab.com/aquachain/aquachain/core/types"
	"gitlab.com/aquachain/aquachain/core/vm"
	"gitlab.com/aquachain/aquachain/trie"
	"pgregory.net/rapid"
	"verifharness/ev"
	"verifharness/gen"
)

func TestMain(m *testing.M) {
	gen.Quiet()
	ev.MustHit("block-with-uncle", "hf4-block", "selfdestruct-in-block", "selfdestruct-rolled-back", "value-bearing-nested-call", "create-in-block", "reverted-frame-moved-value",
		"height>=42000000", "height=41999999", "exact-equality-checked", "per-tx-checked")
	ev.Main(m, ev.Config{
		Property: "C05",
		Level:    "exploration",
		Rule: "rapid-generated block trees on six fork configurations with transactions from the whole contract zoo (nested value-bearing CALL/CALLCODE/DELEGATECALL/STATICCALL, CREATE with endowment succeeding/reverting/out of deposit gas, SELFDESTRUCT to self/fresh/existing, random code), uncle sets of 0-2, " +
			"the HF4 height with a funded de-allocation address, and hand-built blocks at heights 42,000,000 +- 8 processed on a parent state; every block is re-executed by the import path (StateProcessor.Process) with a tracer and the sum of all balances is taken by a complete independent walk of the state trie before and after (and after every single transaction). " +
			"non-trivial = a block containing a value-bearing nested call or a CREATE / SELFDESTRUCT; distinct by block hash",
		Assumptions: []string{
			"issuance is computed by the harness from the property statement (1 AQUA below height 42,000,000; (8+u-n)/8 AQUA per uncle to its miner and 1/32 AQUA per uncle to the block's miner; nothing at or above 42,000,000)",
			"SELFDESTRUCT execution is observed through a vm.Tracer; when one executed in the block only the inequality is demanded",
			"state content is read by a complete trie walk (harness/gen/statewalk.go) whose result is re-rooted with the independent Merkle-Patricia reference and must equal the header's state root",
		},
	})
}

var aqua = new(big.Int).Exp(big.NewInt(10), big.NewInt(18), nil)

// issuance is the scheduled issuance of a block, from the statement.
func issuance(h *types.Header, uncles []*types.Header) *big.Int {
	if h.Number.Cmp(big.NewInt(42_000_000)) >= 0 {
		return new(big.Int)
	}
	total := new(big.Int).Set(aqua)
	for _, u := range uncles {
		// (8 + uncleHeight - height)/8 AQUA to the uncle's miner
		r := new(big.Int).Add(big.NewInt(8), u.Number)
		r.Sub(r, h.Number)
		r.Mul(r, aqua)
		r.Div(r, big.NewInt(8))
		total.Add(total, r)
		total.Add(total, new(big.Int).Div(aqua, big.NewInt(32)))
	}
	return total
}

// obs is what the tracer saw in one block.
type obs struct {
	selfdestruct bool
	create       bool
	valueCall    bool // nested call-family instruction with non-zero value
	revertedVal  bool // a frame that had moved value ended in error
	depthValue   map[int]bool
}

func (o *obs) CaptureStart(from, to common.Address, call bool, input []byte, gas uint64, value *big.Int) error {
	// depthValue[d]: the frame at depth d received value when it was entered
	o.depthValue = map[int]bool{}
	if value != nil && value.Sign() != 0 {
		o.depthValue[1] = true
	}
	return nil
}
func (o *obs) CaptureState(env *vm.EVM, pc uint64, op vm.OpCode, gas, cost uint64, memory *vm.Memory, stack *vm.Stack, contract *vm.Contract, depth int, err error) error {
	switch byte(op) {
	case gen.SELFDESTRUCT:
		o.selfdestruct = true
	case gen.CREATE:
		o.create = true
		if st := stack.Data(); len(st) >= 1 && st[len(st)-1].Sign() != 0 {
			o.valueCall = true
			o.mark(depth + 1)
		}
	case gen.CALL:
		if st := stack.Data(); len(st) >= 3 && st[len(st)-3].Sign() != 0 {
			o.valueCall = true
			o.mark(depth + 1)
		}
	case gen.REVERT, gen.INVALID:
		if o.depthValue[depth] {
			o.revertedVal = true
		}
	}
	return nil
}
func (o *obs) mark(depth int) {
	if o.depthValue == nil {
		o.depthValue = map[int]bool{}
	}
	o.depthValue[depth] = true
}
func (o *obs) CaptureFault(env *vm.EVM, pc uint64, op vm.OpCode, gas, cost uint64, memory *vm.Memory, stack *vm.Stack, contract *vm.Contract, depth int, err error) error {
	if o.depthValue[depth] {
		o.revertedVal = true
	}
	return nil
}
func (o *obs) CaptureEnd(output []byte, gasUsed uint64, t time.Duration, err error) error { return nil }

func walk(t *rapid.T, tdb *trie.Database, root common.Hash, what string) *gen.WorldState {
	w, err := gen.WalkState(tdb, root)
	if err != nil {
		t.Fatalf("%s: state not fully readable: %v", what, err)
	}
	rr, err := w.RefRoot()
	if err != nil {
		t.Fatalf("%s: %v", what, err)
	}
	if rr != root {
		t.Fatalf("%s: state root %x but the reference Merkle-Patricia root of its content is %x", what, root, rr)
	}
	return w
}

func deallocSum(pre *gen.WorldState) *big.Int {
	s := new(big.Int)
	for _, hex := range misc.DeallocListHF4 {
		s.Add(s, pre.BalanceOf(common.HexToAddress(hex)))
	}
	return s
}

// judgeBlock re-executes block on its parent state through the import path
// and checks the conservation equation.
func judgeBlock(t *rapid.T, b *gen.Builder, parentRoot common.Hash, block *types.Block, what string) (labels []string, nontrivial bool) {
	config := b.Config
	sdb := state.NewDatabase(b.DB)
	pre := walk(t, sdb.TrieDB(), parentRoot, what+" pre-state")
	statedb, err := state.New(parentRoot, sdb)
	if err != nil {
		t.Fatalf("%s: %v", what, err)
	}
	ft := &gen.FrameTracer{}
	proc := core.NewStateProcessor(config, b.Chain, b.Engine)
	receipts, _, _, err := proc.Process(block, statedb, vm.Config{Debug: true, Tracer: ft})
	o := &obs{selfdestruct: ft.SurvivingSD > 0, create: ft.Creates > 0, valueCall: ft.ValueCalls > 0, revertedVal: ft.FailedValue > 0}
	if ft.ExecutedSD > ft.SurvivingSD {
		labels = append(labels, "selfdestruct-rolled-back")
	}
	if err != nil {
		t.Fatalf("%s: Process failed on a block the builder produced: %v", what, err)
	}
	root, err := statedb.Commit(config.IsEIP158(block.Number()))
	if err != nil {
		t.Fatal(err)
	}
	post := walk(t, sdb.TrieDB(), root, what+" post-state")
	delta := new(big.Int).Sub(post.Sum(), pre.Sum())
	iss := issuance(block.Header(), block.Uncles())
	if hf4 := config.GetHF(4); hf4 != nil && hf4.Cmp(block.Number()) == 0 {
		d := deallocSum(pre)
		iss = new(big.Int).Sub(iss, d)
		if d.Sign() > 0 {
			labels = append(labels, "hf4-block")
		}
	}
	if delta.Cmp(iss) > 0 {
		t.Fatalf("%s (height %v, %d txs, %d uncles): the sum of all balances grew by %v, scheduled issuance is %v (excess %v)",
			what, block.Number(), len(block.Transactions()), len(block.Uncles()), delta, iss, new(big.Int).Sub(delta, iss))
	}
	if !o.selfdestruct && delta.Cmp(iss) < 0 && ev.Known(keyLostCredit) {
		// the known shape, exactly: an account that sat EMPTY in the parent state was credited in this block,
		// the live state shows the credit, the committed state does not, and the credits lost this way add up
		// to the whole shortfall
		lost := new(big.Int)
		cands := map[common.Address]bool{block.Coinbase(): true}
		for a := range ft.ValueTargets {
			cands[a] = true
		}
		for _, tx := range block.Transactions() {
			if tx.To() != nil {
				cands[*tx.To()] = true
			}
		}
		for _, u := range block.Uncles() {
			cands[u.Coinbase] = true
		}
		for a := range cands {
			pa := pre.Accts[gen.HashedAddr(a)]
			if pa == nil || pa.Nonce != 0 || pa.Balance.Sign() != 0 || len(pa.Code) != 0 || len(pa.Storage) != 0 {
				continue
			}
			if live, stored := statedb.GetBalance(a), post.BalanceOf(a); live.Cmp(stored) > 0 {
				lost.Add(lost, new(big.Int).Sub(live, stored))
			}
		}
		if lost.Sign() > 0 && new(big.Int).Add(delta, lost).Cmp(iss) == 0 {
			ev.Excluded(keyLostCredit)
			return append(labels, "known:lost-credit-to-preexisting-empty-account"), true
		}
	}
	if !o.selfdestruct {
		labels = append(labels, "exact-equality-checked")
		if delta.Cmp(iss) != 0 {
			t.Fatalf("%s (height %v): no self-destruct executed, yet the sum of balances changed by %v instead of the scheduled %v (difference %v)",
				what, block.Number(), delta, iss, new(big.Int).Sub(delta, iss))
		}
	} else {
		labels = append(labels, "selfdestruct-in-block")
	}
	if len(block.Uncles()) > 0 {
		labels = append(labels, "block-with-uncle")
	}
	if o.create {
		labels = append(labels, "create-in-block")
	}
	if o.valueCall {
		labels = append(labels, "value-bearing-nested-call")
	}
	if o.revertedVal {
		labels = append(labels, "reverted-frame-moved-value")
	}
	_ = receipts
	return labels, o.selfdestruct || o.create || o.valueCall
}

// judgeTxs applies the block's transactions one at a time and checks that the
// total never increases by executing a transaction.
func judgeTxs(t *rapid.T, b *gen.Builder, parentRoot common.Hash, block *types.Block, what string) {
	config := b.Config
	sdb := state.NewDatabase(b.DB)
	statedb, err := state.New(parentRoot, sdb)
	if err != nil {
		t.Fatal(err)
	}
	header := block.Header()
	header.GasUsed = 0
	if hf4 := config.GetHF(4); hf4 != nil && hf4.Cmp(block.Number()) == 0 {
		misc.ApplyHardFork4(statedb)
	}
	gp := new(core.GasPool).AddGas(header.GasLimit)
	sumOf := func() *big.Int {
		cp := statedb.Copy()
		r, err := cp.Commit(false)
		if err != nil {
			t.Fatal(err)
		}
		w, err := gen.WalkState(sdb.TrieDB(), r)
		if err != nil {
			t.Fatalf("%s: %v", what, err)
		}
		return w.Sum()
	}
	prev := sumOf()
	for i, tx := range block.Transactions() {
		statedb.Prepare(tx.Hash(), block.Hash(), i)
		if _, _, err := core.ApplyTransaction(config, b.Chain, nil, gp, statedb, header, tx, &header.GasUsed, vm.Config{}); err != nil {
			t.Fatalf("%s: tx %d: %v", what, i, err)
		}
		cur := sumOf()
		if cur.Cmp(prev) > 0 {
			t.Fatalf("%s: executing transaction %d (%x) alone increased the sum of all balances by %v", what, i, tx.Hash().Bytes()[:4], new(big.Int).Sub(cur, prev))
		}
		prev = cur
		ev.Label("per-tx-checked")
	}
}

func TestConservationOnTrees(t *testing.T) {
	ev.Check(t, ev.N(220, 6000), func(t *rapid.T) {
		nc := rapid.SampledFrom(gen.Configs()).Draw(t, "config")
		tr := gen.DrawTree(t, nc, gen.TreeOpts{MaxBranches: 3, MaxDepth: ev.Pick(7, 12), MaxTxs: 5, Uncles: true, MinMain: 5})
		defer tr.Close()
		for _, n := range tr.Nodes[1:] {
			what := fmt.Sprintf("config %s block #%d", nc.Name, n.Index)
			labels, nt := judgeBlock(t, tr.B, n.Parent.Block.Root(), n.Block, what)
			if len(n.Block.Transactions()) > 0 && rapid.IntRange(0, 2).Draw(t, "pertx") == 0 {
				judgeTxs(t, tr.B, n.Parent.Block.Root(), n.Block, what)
			}
			ev.Case(nt, n.Block.Hash().Bytes(), append(labels, "config:"+nc.Name)...)
			if nt {
				ev.Sample(map[string]interface{}{"config": nc.Name, "height": n.Height, "txkinds": n.TxKinds, "uncles": len(n.Block.Uncles()), "labels": strings.Join(labels, ",")})
			}
		}
	})
}

// TestRewardCutoff processes hand-built blocks at heights around 42,000,000 on
// a real parent state (the import path's Process does not need ancestry).
func TestRewardCutoff(t *testing.T) {
	ev.Check(t, ev.N(150, 6000), func(t *rapid.T) {
		nc := gen.ConfigByName("all-at-0")
		b, err := gen.NewBuilder(gen.Genesis(nc.Config, 0))
		if err != nil {
			t.Fatal(err)
		}
		defer b.Chain.Stop()
		genesis := b.Chain.Genesis()
		num := int64(42_000_000) + int64(rapid.SampledFrom([]int{-8, -2, -1, -1, -1, 0, 0, 0, 1, 2, 8}).Draw(t, "offset"))
		header := &types.Header{ParentHash: genesis.Hash(), Number: big.NewInt(num), GasLimit: 8_000_000, Time: big.NewInt(1_600_000_000),
			Difficulty: big.NewInt(1 << 30), Coinbase: gen.Keys[5].Addr, Version: nc.Config.GetBlockVersion(big.NewInt(num))}
		var uncles []*types.Header
		for i, nu := 0, rapid.IntRange(0, 2).Draw(t, "nuncles"); i < nu; i++ {
			uncles = append(uncles, &types.Header{Number: big.NewInt(num - int64(rapid.IntRange(1, 6).Draw(t, "uncledist"))), Coinbase: gen.Keys[6].Addr,
				Difficulty: big.NewInt(1), Time: big.NewInt(1), GasLimit: 5000, Extra: []byte{byte(i)}, Version: header.Version})
		}
		// transactions drawn against the genesis state
		st, _ := state.New(genesis.Root(), state.NewDatabase(b.DB))
		var txs []*types.Transaction
		nonces := map[common.Address]uint64{}
		for i, ntx := 0, rapid.IntRange(0, 3).Draw(t, "ntx"); i < ntx; i++ {
			tx, _ := gen.DrawTx(t, gen.TxCtx{Config: nc.Config, Num: header.Number, State: st, GasLeft: 2_000_000, Keys: gen.Keys[i : i+1],
				Kinds: []string{"transfer", "store-set", "forward", "creator", "bouncer", "emit"}})
			if tx != nil {
				txs = append(txs, tx)
				nonces[gen.Keys[i].Addr]++
			}
		}
		block := types.NewBlock(header, txs, uncles, nil)
		labels, nt := judgeBlock(t, b, genesis.Root(), block, fmt.Sprintf("hand-built block at height %d", num))
		switch {
		case num >= 42_000_000:
			labels = append(labels, "height>=42000000")
		case num == 41_999_999:
			labels = append(labels, "height=41999999")
		}
		ev.Case(nt || len(uncles) > 0, block.Hash().Bytes(), labels...)
	})
}
