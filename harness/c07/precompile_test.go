package c07

import (
	"fmt"
	"math/big"
	"testing"

	"gitlab.com/aquachain/aquachain/common"
	"pgregory.net/rapid"
	"verifharness/ev"
	"verifharness/gen"
)

var lenLattice = []*big.Int{big.NewInt(0), big.NewInt(1), big.NewInt(31), big.NewInt(32), big.NewInt(33), big.NewInt(1 << 16), big.NewInt(1 << 24),
	new(big.Int).Lsh(big.NewInt(1), 32), new(big.Int).Lsh(big.NewInt(1), 62), new(big.Int).Sub(new(big.Int).Lsh(big.NewInt(1), 64), big.NewInt(1)),
	new(big.Int).Lsh(big.NewInt(1), 64), new(big.Int).Lsh(big.NewInt(1), 255)}

// TestPrecompileInputs calls every precompiled contract directly (the subject
// forwards its call data to it with all gas) with structured hostile inputs:
// for modexp every triple of length words over a boundary lattice is
// enumerated; the others get lengths around their block sizes. Totality, the
// gas bound and the allocation bound of runCase apply.
func TestPrecompileInputs(t *testing.T) {
	// the subject: CALL(gas, addr = calldata[0:32], 0, in = calldata[32:], out 0) and return
	a := gen.NewAsm()
	a.Push(32).Op(gen.CALLDATASIZE, gen.SUB)            // [sz]
	a.Op(gen.DUP1).Push(32).Push(0).Op(gen.CALLDATACOPY) // [sz]
	a.Push(0).Push(0).Op(gen.DUP3).Push(0).Push(0).Push(0).Op(gen.CALLDATALOAD, gen.GAS, gen.CALL, gen.STOP)
	code := a.Bytes()
	// modexp, enumerated
	n := 0
	shard, nsh := ev.Shard(), ev.NShards()
	for _, ep := range epochs {
		for _, bl := range lenLattice {
			for _, el := range lenLattice {
				for _, ml := range lenLattice {
					n++
					if n%nsh != shard {
						continue
					}
					for _, gas := range []uint64{1000, 100_000} {
						in := gen.Cat(gen.WordAddr(common.BytesToAddress([]byte{5})), gen.WordBig(bl), gen.WordBig(el), gen.WordBig(ml), []byte{3, 5, 7})
						ci := &caseInfo{labels: map[string]bool{}}
						runCase(t, ep, code, in, gas, big.NewInt(0), false, ci)
						if t.Failed() {
							return
						}
						ev.Case(true, []byte(fmt.Sprintf("modexp:%s:%v:%v:%v:%d", ep.name, bl, el, ml, gas)), "precompile:5", "modexp-length-lattice")
					}
				}
			}
		}
	}
	ev.Exhaustive("modexp length headers: every (base, exponent, modulus) length triple over a 12-point boundary lattice, 4 epochs, 2 gas budgets")
}

func TestPrecompileRandomInputs(t *testing.T) {
	a := gen.NewAsm()
	a.Push(32).Op(gen.CALLDATASIZE, gen.SUB)
	a.Op(gen.DUP1).Push(32).Push(0).Op(gen.CALLDATACOPY)
	a.Push(0).Push(0).Op(gen.DUP3).Push(0).Push(0).Push(0).Op(gen.CALLDATALOAD, gen.GAS, gen.CALL, gen.STOP)
	code := a.Bytes()
	ev.Check(t, ev.N(1500, 60000), func(t *rapid.T) {
		ep := rapid.SampledFrom(epochs).Draw(t, "epoch")
		p := byte(rapid.IntRange(1, 9).Draw(t, "precompile"))
		sizes := map[byte][]int{1: {0, 127, 128, 129}, 2: {0, 1, 64, 1000}, 3: {0, 1, 64, 1000}, 4: {0, 1, 33, 5000}, 6: {0, 63, 64, 127, 128, 129}, 7: {0, 95, 96, 97}, 8: {0, 191, 192, 193, 384, 385}, 9: {0, 10}, 5: {96, 97, 200}}
		sz := rapid.SampledFrom(sizes[p]).Draw(t, "size")
		data := rapid.SliceOfN(rapid.Byte(), sz, sz).Draw(t, "data")
		gas := rapid.SampledFrom([]uint64{0, 100, 3000, 100_000, 3_000_000}).Draw(t, "gas")
		ci := &caseInfo{labels: map[string]bool{}}
		runCase(t, ep, code, gen.Cat(gen.WordAddr(common.BytesToAddress([]byte{p})), data), gas, big.NewInt(0), false, ci)
		ev.Case(true, append([]byte{p, byte(sz), byte(sz >> 8), byte(gas), byte(gas >> 8)}, data...), fmt.Sprintf("precompile:%d", p), "precompile-direct")
	})
}
