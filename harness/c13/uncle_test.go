package c13

import (
	"fmt"
	"math/big"
	"strings"
	"testing"

	"gitlab.com/aquachain/aquachain/common"
	"gitlab.com/aquachain/aquachain/consensus/aquahash"
	"gitlab.com/aquachain/aquachain/core/types"
	"pgregory.net/rapid"
	"verifharness/ev"
)

// ---------- reference predicate ----------

// refUncles decides a block's uncle list from the property statement: at most
// 2 (1 from HF5), each uncle's parent is one of the block's 7 nearest ancestors
// but not the block's own parent, the uncle is not one of those ancestors, was
// not included by one of them, is not repeated, and is a valid header relative
// to its parent. It walks the reader's block map directly.
func refUncles(n netCfg, r *mapReader, b *types.Block, sealFailAt uint64) (bool, string) {
	num := b.NumberU64()
	if len(b.Uncles()) > 2 {
		return false, "too-many"
	}
	if len(b.Uncles()) > n.s.maxUncles(num) {
		return false, "too-many-hf5"
	}
	ancestors := map[common.Hash]*types.Header{}
	included := map[common.Hash]bool{}
	ph := b.ParentHash()
	for i := 0; i < 7; i++ {
		a := r.blocks[ph]
		if a == nil {
			break
		}
		ancestors[a.Hash()] = a.Header()
		for _, u := range a.Uncles() {
			included[hashAt(n, u)] = true
		}
		ph = a.ParentHash()
	}
	seen := map[common.Hash]bool{}
	for _, u := range b.Uncles() {
		h := hashAt(n, u)
		if seen[h] {
			return false, "duplicate-in-block"
		}
		if included[h] {
			return false, "already-included"
		}
		seen[h] = true
		if ancestors[h] != nil {
			return false, "is-ancestor"
		}
		if u.ParentHash == b.ParentHash() {
			return false, "sibling-of-block"
		}
		p := ancestors[u.ParentHash]
		if p == nil {
			if r.headers[u.ParentHash] != nil {
				return false, "too-old"
			}
			return false, "unknown-parent"
		}
		gp := r.headers[p.ParentHash]
		rules := RefHeaderRules(n.s, toRef(u), toRef(p), toRefPtr(gp), RefMode{Uncle: true, SealChecked: true, SealFailAt: &sealFailAt})
		if len(rules) > 0 {
			return false, "invalid-header:" + strings.Join(rules, "+")
		}
	}
	return true, ""
}

// hashAt hashes a header with the version its own height has in the schedule.
func hashAt(n netCfg, h *types.Header) common.Hash {
	c := types.CopyHeader(h)
	c.Version = n.cfg.GetBlockVersion(c.Number)
	return c.Hash()
}

// ---------- tree builder ----------

type treeBuilder struct {
	n    netCfg
	r    *mapReader
	salt uint64
}

// child builds a header that is valid relative to parent (difficulty from the
// reference schedule).
func (tb *treeBuilder) child(parent *types.Header, dt uint64, extraLen int) *types.Header {
	tb.salt++
	tm := new(big.Int).Add(parent.Time, new(big.Int).SetUint64(dt))
	gp := tb.r.headers[parent.ParentHash]
	diff := RefDifficulty(tb.n.s, tm, toRef(parent), toRefPtr(gp))
	return mkHeader(tb.n.cfg, hdrSpec{number: parent.Number.Uint64() + 1, parentHash: parent.Hash(), time: tm, diff: diff,
		gasLimit: parent.GasLimit, gasUsed: 0, extraLen: extraLen, salt: tb.salt + 1000})
}

func drawUncleNet(t *rapid.T) netCfg {
	k := rapid.IntRange(0, 11).Draw(t, "net")
	switch {
	case k <= 2:
		return namedNets[3] // test: HF5 at 5
	case k <= 4:
		return namedNets[1] // testnet: HF5 at 5, HF7 at 25
	case k <= 6:
		return namedNets[0] // mainnet: HF5 at 22800
	case k == 7:
		return namedNets[2] // testnet2: HF5 from genesis
	case k == 8:
		return mainnetHF8(36100, 36110)
	}
	return customNet(drawCustomSched(t))
}

func drawBlockNumber(t *rapid.T, s Sched) uint64 {
	k := rapid.IntRange(0, 9).Draw(t, "heightkind")
	if hf5, ok := s.HF[5]; ok && hf5 > 0 && k <= 4 {
		off := rapid.SampledFrom([]int64{-2, -1, -1, 0, 0, 1, 2, 3, 6, 7, 8}).Draw(t, "hf5off")
		if int64(hf5)+off >= 1 {
			return uint64(int64(hf5) + off)
		}
	}
	switch {
	case k <= 6:
		return uint64(rapid.IntRange(1, 14).Draw(t, "smallheight"))
	case k == 7:
		return uint64(rapid.IntRange(14995, 15015).Draw(t, "legacyheight"))
	case k == 8:
		forks := s.forkHeights()
		if len(forks) > 0 {
			f := rapid.SampledFrom(forks).Draw(t, "fork")
			return f + uint64(rapid.IntRange(0, 8).Draw(t, "forkoff"))
		}
	}
	return rapid.Uint64Range(1, 10_000_000).Draw(t, "anyheight")
}

type unclePick struct {
	kind string
	h    *types.Header
}

func TestVerifyUnclesIff(t *testing.T) {
	ev.Check(t, cases(4000, 128_000), func(t *rapid.T) {
		n := drawUncleNet(t)
		N := drawBlockNumber(t, n.s)
		L := uint64(rapid.IntRange(8, 10).Draw(t, "depth"))
		R := uint64(0)
		if N > L {
			R = N - L
		}
		strict := rapid.Bool().Draw(t, "strict")
		r := newReader(n.cfg, strict)
		tb := &treeBuilder{n: n, r: r}
		desc := []string{n.s.String(), fmt.Sprint("N=", N, " R=", R, " strict=", strict)}

		now := nowUnix()
		rootDiff := drawDiff(t, n.s, R+1, "rootdiff")
		if rootDiff.Sign() == 0 {
			rootDiff = bi(minHF5)
		}
		root := mkHeader(n.cfg, hdrSpec{number: R, parentHash: [32]byte{0xcc}, time: bi(now - 5_000_000), diff: rootDiff, gasLimit: 4712388, salt: 7})
		if R == 0 {
			root.ParentHash = common.Hash{}
		}
		main := map[uint64]*types.Header{}
		rootBlock := types.NewBlock(root, nil, nil, nil)
		r.addBlock(rootBlock, true)
		main[R] = rootBlock.Header()

		var included []*types.Header
		for h := R + 1; h < N; h++ {
			hdr := tb.child(main[h-1], drawDt(t, "maindt"), rapid.SampledFrom([]int{0, 8, 32}).Draw(t, "mainextra"))
			var uncles []*types.Header
			if h >= R+2 && rapid.IntRange(0, 2).Draw(t, "mainuncle") == 0 {
				maxd := int(h - 1 - R)
				if maxd > 6 {
					maxd = 6
				}
				d := uint64(rapid.IntRange(1, maxd).Draw(t, "mainuncled"))
				u := tb.child(main[h-1-d], drawDt(t, "mainuncledt"), 3)
				uncles = append(uncles, u)
				included = append(included, u)
				desc = append(desc, fmt.Sprintf("main#%d includes uncle#%d", h, u.Number))
			}
			blk := types.NewBlock(hdr, nil, uncles, nil)
			r.addBlock(blk, true)
			main[h] = blk.Header()
		}

		hdrB := tb.child(main[N-1], drawDt(t, "bdt"), 0)
		failAt := uint64(0)
		engine := aquahash.NewFaker()

		k := rapid.SampledFrom([]int{0, 1, 1, 1, 1, 1, 2, 2, 2, 3}).Draw(t, "nuncles")
		if k >= 2 && n.s.active(5, N) && rapid.IntRange(0, 3).Draw(t, "keepmany") > 0 {
			k = 1 // from HF5 on every list of two is rejected for its length alone
		}
		var picks []unclePick
		sideIncluded := false
		fresh := func(d uint64, label string) *types.Header {
			return tb.child(main[N-1-d], drawDt(t, label+"dt"), rapid.SampledFrom([]int{0, 32}).Draw(t, label+"extra"))
		}
		maxBack := N - 1 - R // deepest available ancestor distance from N-1
		for i := 0; i < k; i++ {
			kind := rapid.SampledFrom([]string{"fresh", "fresh", "fresh", "fresh", "edge", "edge", "included", "ancestor", "dup", "dup", "invalid", "invalid", "orphan", "side-included", "time64", "sealfail"}).Draw(t, "pick")
			if kind == "time64" && ev.Known(kfUncleTime) {
				ev.Excluded(kfUncleTime)
				kind = "fresh"
			}
			inWindow := func(label string) (uint64, bool) { // a distance whose parent lies in the 7-ancestor window, not the block's parent
				hi := uint64(6)
				if maxBack < hi {
					hi = maxBack
				}
				if hi < 1 {
					return 0, false
				}
				return uint64(rapid.IntRange(1, int(hi)).Draw(t, label)), true
			}
			switch kind {
			case "fresh":
				if d, ok := inWindow("freshd"); ok {
					picks = append(picks, unclePick{fmt.Sprint("fresh(d=", d, ")"), fresh(d, "fresh")})
				}
			case "edge":
				d := rapid.SampledFrom([]uint64{0, 1, 5, 6, 6, 7, 7, 8}).Draw(t, "edged")
				if d <= maxBack {
					picks = append(picks, unclePick{fmt.Sprint("fresh(d=", d, ")"), fresh(d, "edge")})
				}
			case "included":
				if len(included) > 0 {
					picks = append(picks, unclePick{"included", rapid.SampledFrom(included).Draw(t, "whichincluded")})
				}
			case "ancestor":
				a := uint64(rapid.IntRange(0, 8).Draw(t, "ancestord"))
				if a <= maxBack {
					picks = append(picks, unclePick{fmt.Sprint("ancestor(", a, ")"), types.CopyHeader(main[N-1-a])})
				}
			case "dup":
				if len(picks) > 0 {
					p := picks[rapid.IntRange(0, len(picks)-1).Draw(t, "whichdup")]
					picks = append(picks, unclePick{"dup:" + p.kind, types.CopyHeader(p.h)})
				}
			case "orphan":
				if N >= 2 {
					ghost := mkHeader(n.cfg, hdrSpec{number: N - 2, parentHash: [32]byte{0xdd}, time: main[N-1].Time, diff: bi(minHF5), gasLimit: 4712388, salt: 99})
					picks = append(picks, unclePick{"orphan", tb.child(ghost, 10, 0)})
				}
			case "side-included":
				if d, ok := inWindow("sided"); ok && maxBack >= 1 {
					u := fresh(d, "side")
					// a side block (not an ancestor of the block under test) includes u
					sd := uint64(rapid.IntRange(0, int(d)).Draw(t, "sideparent"))
					if sd > 0 {
						sd--
					}
					side := types.NewBlock(tb.child(main[N-1-sd], drawDt(t, "sideblockdt"), 1), nil, []*types.Header{u}, nil)
					r.addBlock(side, false)
					sideIncluded = true
					picks = append(picks, unclePick{fmt.Sprint("side-included(d=", d, ")"), u})
				}
			case "sealfail":
				if d, ok := inWindow("sealfaild"); ok {
					u := fresh(d, "sealfail")
					failAt = u.Number.Uint64()
					engine = aquahash.NewFakeFailer(failAt)
					picks = append(picks, unclePick{"sealfail", u})
				}
			case "time64":
				if d, ok := inWindow("t64d"); ok {
					u := fresh(d, "t64")
					p := main[N-1-d]
					low := new(big.Int).Add(p.Time, bi(int64(drawDt(t, "t64dt"))))
					u.Time = new(big.Int).Add(two64, low)
					// difficulty as computed from the low 64 bits or from the full value
					if rapid.Bool().Draw(t, "t64trunc") {
						u.Difficulty = RefDifficulty(n.s, low, toRef(p), toRefPtr(r.headers[p.ParentHash]))
					} else {
						u.Difficulty = RefDifficulty(n.s, u.Time, toRef(p), toRefPtr(r.headers[p.ParentHash]))
					}
					picks = append(picks, unclePick{"time64", u})
				}
			case "invalid":
				if d, ok := inWindow("invalidd"); ok {
					u := fresh(d, "invalid")
					p := main[N-1-d]
					bound := p.GasLimit / 1024
					how := rapid.SampledFrom([]string{"extra33", "time=parent", "time<parent", "diff+1", "diff-1", "gasdelta=bound", "gasused>limit", "number+1", "number-1", "gaslimit<5000", "ok:gasdelta=bound-1", "ok:extra32", "ok:time=parent+1"}).Draw(t, "how")
					reDiff := func() {
						u.Difficulty = RefDifficulty(n.s, u.Time, toRef(p), toRefPtr(r.headers[p.ParentHash]))
					}
					switch how {
					case "extra33":
						u.Extra = make([]byte, 33)
					case "time=parent":
						u.Time = new(big.Int).Set(p.Time)
						reDiff()
					case "time<parent":
						u.Time = new(big.Int).Sub(p.Time, bi(1))
						reDiff()
					case "diff+1":
						u.Difficulty = new(big.Int).Add(u.Difficulty, bi(1))
					case "diff-1":
						u.Difficulty = new(big.Int).Sub(u.Difficulty, bi(1))
					case "gasdelta=bound":
						u.GasLimit = p.GasLimit + bound
					case "gasused>limit":
						u.GasUsed = u.GasLimit + 1
					case "number+1":
						u.Number = new(big.Int).Add(u.Number, bi(1))
					case "number-1":
						u.Number = new(big.Int).Sub(u.Number, bi(1))
					case "gaslimit<5000":
						u.GasLimit = 4999
					case "ok:gasdelta=bound-1":
						u.GasLimit = p.GasLimit - bound + 1
					case "ok:extra32":
						u.Extra = make([]byte, 32)
					case "ok:time=parent+1":
						u.Time = new(big.Int).Add(p.Time, bi(1))
						reDiff()
					}
					u.Version = n.cfg.GetBlockVersion(u.Number)
					picks = append(picks, unclePick{"variant:" + how, u})
				}
			}
		}
		var uncles []*types.Header
		for _, p := range picks {
			uncles = append(uncles, p.h)
			desc = append(desc, fmt.Sprintf("%s #%v t=%v d=%v", p.kind, p.h.Number, new(big.Int).Sub(p.h.Time, main[N-1].Time), p.h.Difficulty))
		}
		blk := types.NewBlock(hdrB, nil, uncles, nil)

		wantOK, reason := refUncles(n, r, blk, failAt)
		err := engine.VerifyUncles(r, blk)
		if (err == nil) != wantOK {
			t.Fatalf("VerifyUncles verdict %v, reference says ok=%v (%s)\n%s", err, wantOK, reason, strings.Join(desc, "\n"))
		}

		lbls := []string{}
		if wantOK {
			lbls = append(lbls, "uncle:accept")
			if len(uncles) == 2 {
				lbls = append(lbls, "uncle:accept:2-before-hf5")
			}
			for _, u := range uncles {
				lbls = append(lbls, fmt.Sprint("uncle:accept:distance-", N-u.Number.Uint64()))
			}
			if sideIncluded {
				lbls = append(lbls, "uncle:accept:included-by-non-ancestor")
			}
			for _, p := range picks {
				if strings.HasPrefix(p.kind, "variant:ok:") {
					lbls = append(lbls, "uncle:accept:"+strings.TrimPrefix(p.kind, "variant:ok:"))
				}
			}
		} else {
			short := reason
			if i := strings.Index(short, ":"); i > 0 {
				lbls = append(lbls, "uncle:reject:"+short)
				short = short[:i]
			}
			lbls = append(lbls, "uncle:reject:"+short)
			if N <= 15008 && (short == "duplicate-in-block" || short == "already-included" || short == "sibling-of-block" || short == "too-old" || short == "unknown-parent") {
				lbls = append(lbls, "uncle:legacy-height-branch")
			}
		}
		if n.s.active(5, N) {
			lbls = append(lbls, "uncle:block-at-or-after-hf5")
		} else {
			lbls = append(lbls, "uncle:block-before-hf5")
		}
		ev.Case(len(uncles) > 0, []byte(strings.Join(desc, "|")), lbls...)
		ev.Sample(map[string]interface{}{"kind": "uncles", "case": desc, "accepted": wantOK, "reason": reason})
	})
}

// TestKnownUncleTimeTruncation is the fixed witness of the listed finding: an
// uncle whose timestamp does not fit 64 bits is judged with the low 64 bits of
// its timestamp (header.Time.Uint64()), so a header that could never have been
// a block (2^64 seconds in the future) is accepted as an uncle, with the
// difficulty of a block mined 5 s after its parent.
func TestKnownUncleTimeTruncation(t *testing.T) {
	n := namedNets[3] // test schedule
	r := newReader(n.cfg, true)
	tb := &treeBuilder{n: n, r: r}
	root := types.NewBlock(mkHeader(n.cfg, hdrSpec{number: 0, time: bi(1_600_000_000), diff: bi(minHF5 * 4), gasLimit: 4712388, salt: 7}), nil, nil, nil)
	r.addBlock(root, true)
	main := []*types.Header{root.Header()}
	for h := 1; h < 10; h++ {
		blk := types.NewBlock(tb.child(main[h-1], 240, 0), nil, nil, nil)
		r.addBlock(blk, true)
		main = append(main, blk.Header())
	}
	p := main[7]
	u := tb.child(p, 5, 0)
	low := new(big.Int).Set(u.Time)
	u.Time = new(big.Int).Add(two64, low)
	u.Difficulty = RefDifficulty(n.s, low, toRef(p), toRefPtr(main[6])) // what a block 5 s after its parent would carry
	blk := types.NewBlock(tb.child(main[9], 240, 0), nil, []*types.Header{u}, nil)
	wantOK, reason := refUncles(n, r, blk, 0)
	if wantOK {
		t.Fatalf("harness error: reference accepts the witness")
	}
	err := aquahash.NewFaker().VerifyUncles(r, blk)
	ev.Case(true, []byte("witness:"+kfUncleTime), "uncle:witness-time64")
	if err == nil {
		if ev.Known(kfUncleTime) {
			ev.KnownFinding(kfUncleTime)
			return
		}
		t.Fatalf("VerifyUncles accepted an uncle with timestamp 2^64+%v (reference: %s): the difficulty was checked against the low 64 bits of the timestamp", low, reason)
	}
}
