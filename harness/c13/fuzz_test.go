package c13

import (
	"math/big"
	"testing"
)

// schedFromBytes maps bytes to a schedule under the same constraints as
// drawCustomSched (positive heights strictly increasing with the fork index,
// HF6/HF7 at a positive height only with HF2).
func schedFromBytes(sel byte, b []byte) Sched {
	if int(sel%10) < len(namedNets) {
		return namedNets[sel%10].s
	}
	if sel%10 == 6 {
		return mainnetHF8(36100+uint64(sel/10)*50, 0).s
	}
	s := Sched{Name: "custom", HF: map[int]uint64{}}
	s.ChainID = []uint64{mainnetChainID, 3, 1337, 424242}[int(sel/10)%4]
	gaps := []uint64{1, 2, 3, 5, 10, 40, 1000, 25000}
	cur, zeroRun := uint64(0), true
	for i := 1; i <= 10; i++ {
		if i-1 >= len(b) {
			break
		}
		x := b[i-1]
		if x&1 == 0 || (i == 10 && x&6 != 6) {
			continue
		}
		if zeroRun && i <= 7 && x&2 != 0 {
			s.HF[i] = 0
			continue
		}
		zeroRun = false
		cur += gaps[int(x>>2)%len(gaps)]
		s.HF[i] = cur
	}
	if _, ok := s.HF[2]; !ok {
		for _, k := range []int{6, 7} {
			if h, ok := s.HF[k]; ok && h > 0 {
				delete(s.HF, k)
			}
		}
	}
	return s
}

func bytesToBig(b []byte) *big.Int {
	if len(b) > 33 {
		b = b[:33]
	}
	return new(big.Int).SetBytes(b)
}

// pickHeight maps a fuzzed number to a parent height, folding most values into
// the neighbourhood of a fork.
func pickHeight(s Sched, sel uint8, raw uint64) uint64 {
	forks := s.forkHeights()
	if len(forks) > 0 && sel%4 != 0 {
		f := forks[int(sel/4)%len(forks)]
		off := int64(raw%6) - 3
		if int64(f)+off >= 0 {
			return uint64(int64(f) + off)
		}
	}
	return raw % (1 << 41)
}

// FuzzCalcDifficulty: CalcDifficulty == refdiff on fuzzed schedules and tuples.
func FuzzCalcDifficulty(f *testing.F) {
	f.Add(uint8(0), []byte{}, uint8(1), uint64(22799), uint32(240), []byte{0x02, 0xbe, 0x7f, 0x9a}, uint32(240), []byte{0x02, 0xbe, 0x7f, 0x9a})
	f.Add(uint8(1), []byte{}, uint8(5), uint64(649), uint32(179), []byte{0x05, 0xf5, 0xe1, 0x00}, uint32(1), []byte{1})
	f.Add(uint8(2), []byte{}, uint8(2), uint64(7), uint32(1010), []byte{0x10, 0, 0, 0, 0}, uint32(0), []byte{})
	f.Add(uint8(3), []byte{}, uint8(9), uint64(2), uint32(10), []byte{0x07, 0x35, 0x94, 0x0a, 0x48}, uint32(24240), []byte{0xff, 0xff})
	f.Add(uint8(7), []byte{1, 5, 9, 1, 13, 17, 21, 25, 29, 7}, uint8(3), uint64(3), uint32(9), []byte{0x05, 0xf5, 0xe0, 0xff}, uint32(480), []byte{0x05, 0xf5, 0xe0, 0xff})
	f.Add(uint8(17), []byte{0, 3, 0, 0, 3, 3, 3, 5, 9, 0}, uint8(0), uint64(8), uint32(180), []byte{0x02, 0xbe, 0x7f, 0x9a}, uint32(239), []byte{3})
	f.Fuzz(func(t *testing.T, sel uint8, sb []byte, hsel uint8, rawNum uint64, dt uint32, pdiff []byte, gpdt uint32, gpdiff []byte) {
		s := schedFromBytes(sel, sb)
		n := netFor(s)
		if dt == 0 {
			dt = 1
		}
		c := diffCase{Kind: "difficulty", Name: s.Name, Chain: s.ChainID, HF: s.HF, PNum: pickHeight(s, hsel, rawNum), PTime: 1_600_000_000,
			Dt: uint64(dt), PDiff: bytesToBig(pdiff).String(), GpDt: uint64(gpdt % 100000), GpDiff: bytesToBig(gpdiff).String()}
		if msg, _ := checkDiff(n, c); msg != "" {
			t.Fatalf("%s", msg)
		}
	})
}

// FuzzVerifyHeader: VerifyHeader accepts iff the reference rules hold, with the
// case fields taken from fuzzed scalars.
func FuzzVerifyHeader(f *testing.F) {
	type seed struct {
		sel                uint8
		sb                 []byte
		hsel               uint8
		rawNum             uint64
		strict             bool
		pdiff              []byte
		pgl                uint64
		numOff, timeMode   uint8
		timeArg            int32
		diffArg            int8
		glMode             uint8
		glArg              uint64
		guMode, extra, eng uint8
	}
	for _, s := range []seed{
		{0, nil, 1, 22799, true, []byte{0x02, 0xbe, 0x7f, 0x9a}, 4712388, 1, 0, 240, 0, 0, 0, 0, 0, 0},
		{1, nil, 5, 5, false, []byte{0x05, 0xf5, 0xe1, 0x00}, 5000, 1, 0, 1, 0, 1, 0, 1, 32, 1},
		{3, nil, 9, 6, true, []byte{0x07, 0x35, 0x94, 0x0a, 0x48}, 1<<63 - 1, 1, 0, 0, 0, 2, 1 << 63, 2, 33, 2},
		{2, nil, 2, 18, false, []byte{0xff, 0xff, 0xff, 0xff, 0xff}, 8000000, 2, 1, 7, 1, 3, 0, 3, 0, 3},
		{7, []byte{1, 5, 9, 1, 13, 17, 21, 25, 29, 7}, 3, 3, true, []byte{0x05, 0xf5, 0xe0, 0xff}, 5120, 0, 2, 100, -1, 4, 0, 0, 31, 4},
		{27, []byte{0, 3, 0, 0, 3, 3, 3, 5, 9, 0}, 0, 8, false, []byte{0x02, 0xbe, 0x7f, 0x9a}, 1024 * 7000, 1, 0, -1, 0, 5, 0, 1, 5, 0},
	} {
		f.Add(s.sel, s.sb, s.hsel, s.rawNum, s.strict, s.pdiff, s.pgl, s.numOff, s.timeMode, s.timeArg, s.diffArg, s.glMode, s.glArg, s.guMode, s.extra, s.eng)
	}
	f.Fuzz(func(t *testing.T, sel uint8, sb []byte, hsel uint8, rawNum uint64, strict bool, pdiff []byte, pgl uint64, numOff, timeMode uint8, timeArg int32, diffArg int8,
		glMode uint8, glArg uint64, guMode, extra, eng uint8) {
		s := schedFromBytes(sel, sb)
		c := hdrCase{Kind: "header", Name: s.Name, Chain: s.ChainID, HF: s.HF, Strict: strict, FailAt: noFail}
		c.PNum = pickHeight(s, hsel, rawNum)
		c.PTimeBack = 7200 + int64(rawNum%1_000_000)
		c.GpDt = 1 + uint64(glArg%30000)
		c.PDiff = bytesToBig(pdiff).String()
		c.GpDiff = c.PDiff
		c.PGasLimit = pgl % (1 << 63)
		c.Number = c.PNum + uint64(numOff%4) // parent, parent+1, parent+2, parent+3
		if numOff%8 == 7 && c.PNum > 0 {
			c.Number = c.PNum - 1
		}
		switch timeMode % 4 {
		case 0, 3:
			c.TimeMode, c.TimeArg = "dt", int64(timeArg%4000)
		case 1:
			a := int64(timeArg)
			if a < 0 {
				a = -a
			}
			c.TimeMode, c.TimeArg = "now", -5-a%100000
		case 2:
			a := int64(timeArg)
			if a < 0 {
				a = -a
			}
			c.TimeMode, c.TimeArg = "now", 60+a
		}
		c.DiffMode, c.DiffArg = "exp", int64(diffArg/32) // mostly 0, else -4..3
		bound := c.PGasLimit / 1024
		switch glMode % 8 {
		case 0:
			c.GasLimit = c.PGasLimit
		case 1:
			c.GasLimit = c.PGasLimit + bound - 1
		case 2:
			c.GasLimit = c.PGasLimit + bound
		case 3:
			c.GasLimit = c.PGasLimit - bound + 1
		case 4:
			c.GasLimit = c.PGasLimit - bound
		case 5:
			c.GasLimit = glArg
		case 6:
			c.GasLimit = c.PGasLimit + glArg%(bound+1)
		case 7:
			c.GasLimit = c.PGasLimit - glArg%(bound+1)
		}
		switch guMode % 4 {
		case 0:
			c.GasUsed = 0
		case 1:
			c.GasUsed = c.GasLimit
		case 2:
			c.GasUsed = c.GasLimit + 1
		case 3:
			c.GasUsed = glArg
		}
		c.ExtraLen = int(extra % 40)
		c.Seal = eng&1 == 1
		if eng&2 != 0 {
			c.FailAt = int64(eng>>2)%3 - 1
		}
		if msg, _, _ := runHeaderCase(c); msg != "" {
			t.Fatalf("%s", msg)
		}
	})
}
