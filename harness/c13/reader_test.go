package c13

import (
	"context"
	"fmt"
	"math/big"
	"time"

	"gitlab.com/aquachain/aquachain/common"
	"gitlab.com/aquachain/aquachain/core/types"
	"gitlab.com/aquachain/aquachain/params"
	"pgregory.net/rapid"
)

// mapReader is a consensus.ChainReader backed by maps, so that a parent or
// grandparent can sit at any height of any schedule. The node's own reader
// answers from a cache keyed by hash alone and from a database keyed by
// hash+number; both behaviours are offered (strict = hash and number).
type mapReader struct {
	cfg     *params.ChainConfig
	strict  bool
	headers map[common.Hash]*types.Header
	blocks  map[common.Hash]*types.Block
	canon   map[uint64]common.Hash
	head    *types.Header
}

func newReader(cfg *params.ChainConfig, strict bool) *mapReader {
	return &mapReader{cfg: cfg, strict: strict, headers: map[common.Hash]*types.Header{}, blocks: map[common.Hash]*types.Block{}, canon: map[uint64]common.Hash{}}
}

func (r *mapReader) clone() *mapReader {
	c := newReader(r.cfg, r.strict)
	for k, v := range r.headers {
		c.headers[k] = v
	}
	for k, v := range r.blocks {
		c.blocks[k] = v
	}
	for k, v := range r.canon {
		c.canon[k] = v
	}
	c.head = r.head
	return c
}

func (r *mapReader) addHeader(h *types.Header) common.Hash {
	hash := h.Hash()
	r.headers[hash] = h
	r.canon[h.Number.Uint64()] = hash
	if r.head == nil || h.Number.Cmp(r.head.Number) > 0 {
		r.head = h
	}
	return hash
}

func (r *mapReader) addBlock(b *types.Block, canonical bool) {
	r.blocks[b.Hash()] = b
	h := b.Header()
	r.headers[b.Hash()] = h
	if canonical {
		r.canon[b.NumberU64()] = b.Hash()
		if r.head == nil || h.Number.Cmp(r.head.Number) > 0 {
			r.head = h
		}
	}
}

func (r *mapReader) Config() *params.ChainConfig  { return r.cfg }
func (r *mapReader) GetContext() context.Context  { return context.Background() }
func (r *mapReader) CurrentHeader() *types.Header { return r.head }
func (r *mapReader) GetHeader(hash common.Hash, number uint64) *types.Header {
	h := r.headers[hash]
	if h == nil || (r.strict && h.Number.Uint64() != number) {
		return nil
	}
	return h
}
func (r *mapReader) GetHeaderByNumber(number uint64) *types.Header {
	hash, ok := r.canon[number]
	if !ok {
		return nil
	}
	return r.headers[hash]
}
func (r *mapReader) GetHeaderByHash(hash common.Hash) *types.Header { return r.headers[hash] }
func (r *mapReader) GetBlock(hash common.Hash, number uint64) *types.Block {
	b := r.blocks[hash]
	if b == nil || (r.strict && b.NumberU64() != number) {
		return nil
	}
	return b
}

// ---------- schedules as the node sees them ----------

type netCfg struct {
	s   Sched
	cfg *params.ChainConfig
}

var namedNets = []netCfg{
	{schedMainnet, params.MainnetChainConfig},
	{schedTestnet, params.TestnetChainConfig},
	{schedTestnet2, params.Testnet2ChainConfig},
	{schedTest, params.TestChainConfig},
	{schedTestnet3, params.Testnet3ChainConfig},
	{schedDev, params.AllAquahashProtocolChanges},
}

// customNet builds a fresh node configuration for a schedule (never aliases
// the node's global fork maps).
func customNet(s Sched) netCfg {
	hf := params.ForkMap{}
	for k, v := range s.HF {
		hf[k] = new(big.Int).SetUint64(v)
	}
	cfg := &params.ChainConfig{
		ChainId:        new(big.Int).SetUint64(s.ChainID),
		HomesteadBlock: big.NewInt(0),
		EIP150Block:    big.NewInt(0),
		Aquahash:       new(params.AquahashConfig),
		HF:             hf,
	}
	return netCfg{s, cfg}
}

// mainnet with the flag-activated HF8 (and a later HF9), as a node started
// with the HF8 flag would see it.
func mainnetHF8(hf8, hf9 uint64) netCfg {
	s := Sched{Name: fmt.Sprintf("mainnet+hf8@%d", hf8), ChainID: mainnetChainID, HF: map[int]uint64{}}
	for k, v := range schedMainnet.HF {
		s.HF[k] = v
	}
	s.HF[8] = hf8
	if hf9 > 0 {
		s.HF[9] = hf9
	}
	return customNet(s)
}

// drawCustomSched draws a schedule in which positive fork heights strictly
// increase with the fork index (as in every built-in schedule; only height 0
// may be shared), any fork may be absent, and HF6/HF7 at a positive height
// occur only together with HF2.
func drawCustomSched(t *rapid.T) Sched {
	s := Sched{Name: "custom", HF: map[int]uint64{}}
	s.ChainID = rapid.SampledFrom([]uint64{mainnetChainID, mainnetChainID, 3, 1337, 617175611, 424242}).Draw(t, "chainid")
	shape := rapid.IntRange(0, 5).Draw(t, "shape")
	present := map[int]bool{}
	switch shape {
	case 0, 1: // a prefix 1..k, optionally followed by 8, 9 (, 10)
		k := rapid.IntRange(0, 7).Draw(t, "prefix")
		for i := 1; i <= k; i++ {
			present[i] = true
		}
		if k >= 5 && rapid.Bool().Draw(t, "hf8") {
			present[8] = true
			present[9] = rapid.Bool().Draw(t, "hf9")
		}
	case 2: // testnet2-like
		present[5], present[6], present[7], present[8] = true, true, true, true
		present[2] = rapid.Bool().Draw(t, "hf2")
		present[9] = rapid.Bool().Draw(t, "hf9")
	default: // any subset
		for i := 1; i <= 9; i++ {
			present[i] = rapid.IntRange(0, 2).Draw(t, fmt.Sprintf("has%d", i)) > 0
		}
	}
	if rapid.IntRange(0, 11).Draw(t, "hf10") == 0 {
		present[10] = true
	}
	zeroRun := shape == 2 || rapid.IntRange(0, 3).Draw(t, "zerorun") == 0
	cur := uint64(0)
	for i := 1; i <= 10; i++ {
		if !present[i] {
			continue
		}
		if zeroRun && cur == 0 && (i <= 7) && rapid.IntRange(0, 3).Draw(t, fmt.Sprintf("zero%d", i)) > 0 {
			s.HF[i] = 0
			continue
		}
		zeroRun = false
		gap := rapid.SampledFrom([]uint64{1, 1, 2, 3, 5, 10, 40, 1000, 25000}).Draw(t, fmt.Sprintf("gap%d", i))
		cur += gap
		s.HF[i] = cur
	}
	if _, ok := s.HF[2]; !ok {
		for _, k := range []int{6, 7} {
			if h, ok := s.HF[k]; ok && h > 0 {
				delete(s.HF, k)
			}
		}
	}
	return s
}

func drawNet(t *rapid.T) netCfg {
	k := rapid.IntRange(0, 15).Draw(t, "net")
	switch {
	case k <= 2:
		return namedNets[0]
	case k <= 4:
		return namedNets[1]
	case k <= 6:
		return namedNets[2]
	case k <= 8:
		return namedNets[3]
	case k == 9:
		return namedNets[rapid.IntRange(4, 5).Draw(t, "othernet")]
	case k == 10:
		h8 := rapid.SampledFrom([]uint64{36051, 36100, 100000, 5000000}).Draw(t, "hf8at")
		h9 := uint64(0)
		if rapid.Bool().Draw(t, "withhf9") {
			h9 = h8 + rapid.SampledFrom([]uint64{1, 2, 1000}).Draw(t, "hf9gap")
		}
		return mainnetHF8(h8, h9)
	}
	return customNet(drawCustomSched(t))
}

// drawParentNumber draws a parent height; most of the mass sits within a few
// blocks of a fork of the schedule.
func drawParentNumber(t *rapid.T, s Sched) uint64 {
	forks := s.forkHeights()
	k := rapid.IntRange(0, 9).Draw(t, "numkind")
	switch {
	case k <= 5 && len(forks) > 0:
		f := rapid.SampledFrom(forks).Draw(t, "fork")
		off := rapid.IntRange(-3, 2).Draw(t, "forkoff") // child height = f-2 .. f+3
		if int64(f)+int64(off) < 0 {
			return 0
		}
		return uint64(int64(f) + int64(off))
	case k <= 7:
		return uint64(rapid.IntRange(0, 30).Draw(t, "small"))
	case k == 8:
		return rapid.SampledFrom([]uint64{14990, 15000, 15008, 15009, 42000000, 1 << 40}).Draw(t, "special")
	}
	return rapid.Uint64Range(0, 60_000_000).Draw(t, "anynum")
}

// ---------- headers ----------

type hdrSpec struct {
	number     uint64
	parentHash common.Hash
	time       *big.Int
	diff       *big.Int
	gasLimit   uint64
	gasUsed    uint64
	extraLen   int
	salt       uint64
}

func mkHeader(cfg *params.ChainConfig, sp hdrSpec) *types.Header {
	h := &types.Header{
		ParentHash:  sp.parentHash,
		UncleHash:   types.EmptyUncleHash,
		Root:        types.EmptyRootHash,
		TxHash:      types.EmptyRootHash,
		ReceiptHash: types.EmptyRootHash,
		Difficulty:  new(big.Int).Set(sp.diff),
		Number:      new(big.Int).SetUint64(sp.number),
		GasLimit:    sp.gasLimit,
		GasUsed:     sp.gasUsed,
		Time:        new(big.Int).Set(sp.time),
		Extra:       make([]byte, sp.extraLen),
	}
	for i := range h.Extra {
		h.Extra[i] = byte(sp.salt + uint64(i))
	}
	h.Coinbase = common.BigToAddress(new(big.Int).SetUint64(sp.salt))
	h.Nonce = types.EncodeNonce(sp.salt)
	h.Version = cfg.GetBlockVersion(h.Number)
	return h
}

func toRef(h *types.Header) RefHeader {
	return RefHeader{Number: h.Number, Time: h.Time, Difficulty: h.Difficulty, GasLimit: h.GasLimit, GasUsed: h.GasUsed, ExtraLen: len(h.Extra)}
}

func toRefPtr(h *types.Header) *RefHeader {
	if h == nil {
		return nil
	}
	r := toRef(h)
	return &r
}

var dtDomain = []uint64{1, 1, 2, 5, 9, 10, 11, 13, 19, 20, 21, 60, 179, 180, 181, 239, 240, 241, 300, 979, 989, 990, 991, 999, 1000, 1001, 1009, 1010, 1011, 5000}

func drawDt(t *rapid.T, label string) uint64 {
	if rapid.IntRange(0, 4).Draw(t, label+"kind") == 0 {
		return rapid.Uint64Range(1, 3000).Draw(t, label+"any")
	}
	return rapid.SampledFrom(dtDomain).Draw(t, label)
}

var gpDtDomain = []uint64{1, 2, 239, 240, 241, 479, 480, 481, 1000, 23999, 24000, 24001, 24239, 24240, 24241, 30000}

func bi(v int64) *big.Int { return big.NewInt(v) }

// drawDiff draws a parent difficulty: the floors and their neighbourhood,
// values whose downward step lands on the floor, small values around each
// divisor, and large ones.
func drawDiff(t *rapid.T, s Sched, next uint64, label string) *big.Int {
	mins := []int64{minGenesis, minHF1, minHF3, minHF5}
	e := epochFor(s, next)
	switch rapid.IntRange(0, 10).Draw(t, label+"kind") {
	case 0, 1:
		m := rapid.SampledFrom(mins).Draw(t, label+"min")
		return bi(m + int64(rapid.IntRange(-2, 2).Draw(t, label+"off")))
	case 2: // the epoch's own floor
		return bi(e.minimum + int64(rapid.IntRange(-1, 3).Draw(t, label+"off")))
	case 3, 4: // a value whose step down is at the floor: p - p/div ~ min
		m := e.minimum
		if rapid.Bool().Draw(t, label+"othermin") {
			m = rapid.SampledFrom(mins).Draw(t, label+"min")
		}
		div := rapid.SampledFrom([]int64{e.divisor, e.divisor, 16, 128, 1024, 2048}).Draw(t, label+"div")
		p := new(big.Int).Mul(bi(m), bi(div))
		p.Div(p, bi(div-1))
		return p.Add(p, bi(int64(rapid.IntRange(-3, 3).Draw(t, label+"off"))))
	case 5:
		return bi(rapid.SampledFrom([]int64{0, 1, 2, 15, 16, 17, 31, 32, 127, 128, 129, 1023, 1024, 1025, 2047, 2048, 2049, 4095, 4096, 131072}).Draw(t, label+"small"))
	case 6:
		return new(big.Int).SetUint64(rapid.Uint64().Draw(t, label+"u64"))
	case 7:
		k := rapid.SampledFrom([]uint{40, 63, 64, 65, 100, 128, 255, 256}).Draw(t, label+"bits")
		p := new(big.Int).Lsh(bi(1), k)
		return p.Add(p, bi(int64(rapid.IntRange(-5, 5000).Draw(t, label+"off"))))
	}
	// realistic: a floor scaled by up to 6x
	m := rapid.SampledFrom(mins).Draw(t, label+"min")
	p := new(big.Int).Mul(bi(m), bi(int64(rapid.IntRange(1000, 6000).Draw(t, label+"scale"))))
	return p.Div(p, bi(1000))
}

func nowUnix() int64 { return time.Now().Unix() }
