// C13 — Headers and uncles are accepted iff they satisfy the consensus rules.
//
// Oracles: refdiff.go (independent restatement of the difficulty schedule and
// of the header rules), a reference uncle predicate over a generated block
// tree (uncle_test.go), and batch == sequential == reference for VerifyHeaders
// under several GOMAXPROCS values (batch_test.go).
package c13

import (
	"encoding/json"
	"fmt"
	"math/big"
	"os"
	"sort"
	"strings"
	"testing"

	"gitlab.com/aquachain/aquachain/common"
	"gitlab.com/aquachain/aquachain/common/log"
	"gitlab.com/aquachain/aquachain/consensus/aquahash"
	"gitlab.com/aquachain/aquachain/core/types"
	"gitlab.com/aquachain/aquachain/params"
	"pgregory.net/rapid"
	"verifharness/ev"
)

const (
	kfUncleTime = "uncle-time-64bit-truncation"
	kfHF10Panic = "hf10-grandparent-panic-in-batch"
)

func TestMain(m *testing.M) {
	log.Root().SetHandler(log.DiscardHandler())
	// (GC percent left at the default: a larger heap makes the race runtime slower)
	ev.MustHit(
		// header rules, both sides of every bound
		"hdr:accept", "hdr:reject",
		"b:extra=32/accept", "b:extra=33/reject-only",
		"b:time=parent+1/accept", "b:time=parent/reject-only", "b:time=parent-1/reject-only",
		"b:time=now-5s/accept", "b:time=now+60s/reject-only",
		"b:gaslimit=5000/accept", "b:gaslimit=4999/reject-only",
		"b:gaslimit=2^63-1/accept", "b:gaslimit=2^63/reject-only",
		"b:gasdelta=bound-1/accept", "b:gasdelta=bound/reject-only",
		"b:gasused=limit/accept", "b:gasused=limit+1/reject-only",
		"b:difficulty=expected/accept", "b:difficulty=expected-1/reject-only", "b:difficulty=expected+1/reject-only",
		"b:number=parent+1/accept", "b:number=parent/reject-only", "b:number=parent+2/reject-only",
		"b:seal=fail-height/reject-only",
		// difficulty table
		"diff:reset-block", "diff:clamped-to-floor", "diff:up", "diff:down", "diff:homestead-cap-99",
		"diff:fork-window:mainnet", "diff:fork-window:testnet", "diff:fork-window:testnet2", "diff:fork-window:test",
		"diff:algo:starting", "diff:algo:hf1", "diff:algo:simple", "diff:algo:grandparent",
		// uncles
		"uncle:accept", "uncle:reject:too-many", "uncle:reject:too-many-hf5", "uncle:reject:duplicate-in-block",
		"uncle:reject:already-included", "uncle:reject:is-ancestor", "uncle:reject:sibling-of-block",
		"uncle:reject:too-old", "uncle:reject:unknown-parent", "uncle:reject:invalid-header",
		"uncle:accept:2-before-hf5", "uncle:accept:distance-6", "uncle:accept:distance-1", "uncle:accept:included-by-non-ancestor",
		// batches
		"batch:all-valid", "batch:fail-first", "batch:fail-middle", "batch:fail-last", "batch:procs=1", "batch:procs=2",
		"batch:procs=3", "batch:procs=8", "batch:procs=16", "batch:delayed", "batch:seal-failure", "batch:known-prefix",
		"batch:aborted-early",
	)
	for _, n := range namedNets[:4] { // mainnet, testnet, testnet2, test: every fork block itself
		for _, f := range n.s.forkHeights() {
			ev.MustHit(fmt.Sprintf("diff:fork-block:%s@%d", n.s.Name, f), fmt.Sprintf("hdr:fork-block:%s@%d", n.s.Name, f))
		}
	}
	ev.Main(m, ev.Config{
		Property: "C13",
		Level:    "exploration",
		Rule: "cases: (1) a parent/grandparent pair at a height within -3..+2 of a fork (or small/any height) of the mainnet, testnet, testnet2, test, testnet3, dev, mainnet+HF8-flag or a drawn custom schedule, and a candidate child whose fields are each drawn from {valid, at the bound, one past the bound}; VerifyHeader's verdict is compared with the rule table of refdiff.go; " +
			"(2) CalcDifficulty against refdiff for an enumerated grid (every fork height -2..+2 of each named schedule x 30 block times x 93 parent difficulties; quick: a seed-dependent third of it) and for drawn tuples on drawn schedules; " +
			"(3) a main chain of up to 10 blocks with side blocks, and a block whose uncle list is drawn from {fresh side block at distance 0..8, already included, ancestor, duplicate, broken header, unknown parent}; VerifyUncles' verdict is compared with a reference predicate; " +
			"(4) parent-linked header batches of 1..24 (quick) / 1..64 (thorough) with 0-2 invalid members, mixed seal flags, fake/delaying/failing engines, verified with VerifyHeaders under GOMAXPROCS 1,2,3,8,16 and compared (first failing index and error text) with one-by-one VerifyHeader and with the reference. " +
			"non-trivial = a header candidate sitting exactly on a bound (either side), a difficulty tuple at a fork block / on the floor clamp / on a duration-limit edge, an uncle set that is not empty, a batch with a failure or with delays; distinct = hash of schedule + heights + time offsets + field values (wall-clock independent)",
		Assumptions: []string{
			"refdiff.go restates the schedule from the comments and constants of params/; for HF9 it assumes no difficulty change (params defines DifficultyBoundDivisorHF9 and *HF8Testnet constants that no code uses)",
			"custom schedules: positive fork heights strictly increase with the fork index and HF6/HF7 at a positive height only occur together with HF2, as in every built-in schedule (calcDifficultyHFX's switch is order-dependent for coinciding fork blocks and uses the simple algorithm for an HF6/HF7 fork block even without HF2; not judged)",
			"the 15 s future-block rule reads the wall clock: it is probed only at now-5 s-k (valid) and now+60 s+k (invalid)",
			"uncles are not measured against the clock (as in the code and in the design), except that an uncle timestamp >= 2^64 is judged invalid",
			"heights <= 15008 carry hard-coded historical uncle exceptions keyed by real mainnet hashes; generated hashes cannot hit them and the reference ignores them",
			"VerifyHeaders is only given parent-linked contiguous batches (what InsertChain/ValidateHeaderChain guarantee); results after the first failure are not compared",
			"header and gas fields are in the uint64/positive big.Int domain RLP can deliver; header numbers < 2^41",
		},
	})
}

// cases picks a case count: the quick count is divided over the quick shards
// as well (the check is built with -race, so the quick tier uses a few
// processes), the thorough count over the thorough shards.
func cases(quick, thorough int) int {
	if ev.Thorough() {
		return ev.N(quick, thorough)
	}
	n := quick / ev.NShards()
	if n < 1 {
		n = 1
	}
	return n
}

// ---------- the node's fork maps against the restated table ----------

func TestScheduleTables(t *testing.T) {
	for _, n := range namedNets {
		if n.cfg.ChainId.Uint64() != n.s.ChainID {
			t.Errorf("%s: chain id %v, table says %d", n.s.Name, n.cfg.ChainId, n.s.ChainID)
		}
		for hf := 0; hf <= 12; hf++ {
			want, ok := n.s.HF[hf]
			got := n.cfg.HF[hf]
			if ok != (got != nil) || (ok && got.Uint64() != want) {
				t.Errorf("%s: HF%d is %v in the node, table says %v (scheduled=%v)", n.s.Name, hf, got, want, ok)
			}
		}
		// header version and uncle limit at every fork height -1..+1
		for _, f := range append(n.s.forkHeights(), 1) {
			for d := int64(-1); d <= 1; d++ {
				h := int64(f) + d
				if h < 0 {
					continue
				}
				if got := byte(n.cfg.GetBlockVersion(big.NewInt(h))); got != n.s.headerVersion(uint64(h)) {
					t.Errorf("%s: header version at %d is %d, table says %d", n.s.Name, h, got, n.s.headerVersion(uint64(h)))
				}
			}
		}
		ev.Case(true, []byte("table:"+n.s.Name), "table:"+n.s.Name)
	}
	if params.MinGasLimit != 5000 || params.GasLimitBoundDivisor != 1024 || params.MaximumExtraDataSize != 32 {
		t.Errorf("protocol parameters changed: MinGasLimit=%d GasLimitBoundDivisor=%d MaximumExtraDataSize=%d", params.MinGasLimit, params.GasLimitBoundDivisor, params.MaximumExtraDataSize)
	}
	if t.Failed() {
		ev.SaveCase("TestScheduleTables", "see log")
	}
}

// ---------- (2) CalcDifficulty == refdiff ----------

type diffCase struct {
	Kind   string         `json:"kind"` // "difficulty"
	Name   string         `json:"schedule"`
	Chain  uint64         `json:"chain_id"`
	HF     map[int]uint64 `json:"hf"`
	PNum   uint64         `json:"parent_number"`
	PTime  uint64         `json:"parent_time"`
	Dt     uint64         `json:"dt"`
	PDiff  string         `json:"parent_difficulty"`
	GpDt   uint64         `json:"grandparent_dt"` // 0 = no grandparent
	GpDiff string         `json:"grandparent_difficulty"`
}

func (c diffCase) sched() Sched { return Sched{Name: c.Name, ChainID: c.Chain, HF: c.HF} }

func netFor(s Sched) netCfg {
	for _, n := range namedNets {
		if n.s.Name == s.Name {
			return n
		}
	}
	return customNet(s)
}

// gpReader answers exactly one lookup: the grandparent under the parent's
// ParentHash (no hashing, so that the difficulty grid stays cheap).
type gpReader struct {
	mapReader
	hash common.Hash
	gp   *types.Header
}

func (r *gpReader) GetHeader(hash common.Hash, number uint64) *types.Header {
	if r.gp != nil && hash == r.hash && r.gp.Number.Uint64() == number {
		return r.gp
	}
	return nil
}

func mustBig(s string) *big.Int {
	v, ok := new(big.Int).SetString(s, 10)
	if !ok {
		return new(big.Int)
	}
	return v
}

// checkDiff evaluates one tuple through the package function and through the
// engine method (with a reader that can supply the grandparent) and compares
// both with the reference. It returns a description of the disagreement or "".
func checkDiff(n netCfg, c diffCase) (string, []string) {
	pdiff := mustBig(c.PDiff)
	parent := &types.Header{Number: new(big.Int).SetUint64(c.PNum), Time: new(big.Int).SetUint64(c.PTime), Difficulty: pdiff, ParentHash: [32]byte{1}}
	parent.Version = n.cfg.GetBlockVersion(parent.Number)
	var gp *types.Header
	if c.GpDt > 0 && c.PNum > 0 && c.PTime >= c.GpDt {
		gp = &types.Header{Number: new(big.Int).SetUint64(c.PNum - 1), Time: new(big.Int).SetUint64(c.PTime - c.GpDt), Difficulty: mustBig(c.GpDiff)}
		gp.Version = n.cfg.GetBlockVersion(gp.Number)
	}
	tm := c.PTime + c.Dt
	want := RefDifficulty(n.s, new(big.Int).SetUint64(tm), toRef(parent), toRefPtr(gp))
	pd0 := new(big.Int).Set(pdiff)
	got := aquahash.CalcDifficulty(n.cfg, tm, parent, gp)
	if got.Cmp(want) != 0 {
		return fmt.Sprintf("CalcDifficulty(%s, child of #%d, dt=%d, parent difficulty %v) = %v, schedule says %v", n.s, c.PNum, c.Dt, pdiff, got, want), nil
	}
	if parent.Difficulty.Cmp(pd0) != 0 {
		return fmt.Sprintf("CalcDifficulty modified its parent argument (%v -> %v)", pd0, parent.Difficulty), nil
	}
	// the engine method looks the grandparent up itself when given none
	got2 := aquahash.NewFaker().CalcDifficulty(&gpReader{mapReader: mapReader{cfg: n.cfg}, hash: parent.ParentHash, gp: gp}, tm, parent, nil)
	if got2.Cmp(want) != 0 {
		return fmt.Sprintf("engine.CalcDifficulty(%s, child of #%d, dt=%d, parent difficulty %v, grandparent from chain) = %v, schedule says %v", n.s, c.PNum, c.Dt, pdiff, got2, want), nil
	}
	// classification
	next := c.PNum + 1
	e := epochFor(n.s, next)
	var lbls []string
	lbls = append(lbls, "diff:algo:"+[]string{"starting", "hf1", "simple", "grandparent"}[e.algo])
	if e.reset != 0 && e.algo != algoGrandparent {
		lbls = append(lbls, "diff:reset-block")
	} else {
		switch want.Cmp(pdiff) {
		case 1:
			lbls = append(lbls, "diff:up")
		case -1:
			lbls = append(lbls, "diff:down")
		}
		if e.algo == algoSimple && want.Cmp(big.NewInt(e.minimum)) == 0 {
			lbls = append(lbls, "diff:clamped-to-floor")
		}
		if (e.algo == algoStarting || e.algo == algoHF1) && c.Dt >= 1000 {
			lbls = append(lbls, "diff:homestead-cap-99")
		}
	}
	inWindow, atFork := false, false
	for _, f := range n.s.HF {
		if f > 0 && next+2 >= f && next <= f+2 {
			inWindow = true
			atFork = atFork || next == f
		}
	}
	if inWindow {
		name := n.s.Name
		if strings.HasPrefix(name, "mainnet+") {
			name = "mainnet+hf8"
		}
		lbls = append(lbls, "diff:fork-window:"+name)
		if atFork {
			lbls = append(lbls, "diff:fork-block")
			if name != "custom" && name != "mainnet+hf8" {
				lbls = append(lbls, fmt.Sprintf("diff:fork-block:%s@%d", name, next))
			}
		}
	}
	return "", lbls
}

func diffNontrivial(n netCfg, c diffCase, lbls []string) bool {
	for _, l := range lbls {
		if l == "diff:reset-block" || l == "diff:clamped-to-floor" || l == "diff:fork-block" {
			return true
		}
	}
	e := epochFor(n.s, c.PNum+1)
	d := int64(c.Dt)
	if e.algo == algoSimple {
		return d == e.limit || d == e.limit-1
	}
	return c.Dt%10 == 0 || c.Dt%10 == 9
}

var gridDiffs = func() []string {
	var out []string
	add := func(v *big.Int) { out = append(out, v.String()) }
	for _, m := range []int64{minGenesis, minHF1, minHF3, minHF5} {
		for _, o := range []int64{-1, 0, 1} {
			add(bi(m + o))
		}
		for _, div := range []int64{16, 128, 1024, 2048} {
			p := new(big.Int).Mul(bi(m), bi(div))
			p.Div(p, bi(div-1))
			for _, o := range []int64{-1, 0, 1, 2} {
				add(new(big.Int).Add(p, bi(o)))
			}
		}
		add(new(big.Int).Mul(bi(m), bi(3)))
	}
	for _, v := range []int64{0, 1, 15, 16, 17, 127, 128, 2047, 2048, 2049, 131072} {
		add(bi(v))
	}
	add(new(big.Int).Lsh(bi(1), 64))
	add(new(big.Int).Add(new(big.Int).Lsh(bi(1), 200), bi(12345)))
	return out
}()

// TestDifficultyGrid enumerates every fork height -2..+2 (and the first
// blocks) of each named schedule against the whole block-time and
// parent-difficulty grids.
func TestDifficultyGrid(t *testing.T) {
	nets := append([]netCfg{}, namedNets...)
	nets = append(nets, mainnetHF8(36100, 36200), mainnetHF8(100000, 0))
	idx := 0
	nsh, shard, thorough, seed3 := ev.NShards(), ev.Shard(), ev.Thorough(), int(ev.Seed()%3+3)
	for _, n := range nets {
		sname := n.s.String()
		heights := map[uint64]bool{1: true, 2: true, 3: true, 4: true}
		for _, f := range n.s.forkHeights() {
			for d := int64(-2); d <= 2; d++ {
				if h := int64(f) + d; h >= 1 {
					heights[uint64(h)] = true
				}
			}
		}
		var hs []uint64
		for h := range heights {
			hs = append(hs, h)
		}
		sort.Slice(hs, func(i, j int) bool { return hs[i] < hs[j] })
		for _, next := range hs {
			for _, dt := range dtDomain {
				for _, pd := range gridDiffs {
					idx++
					if idx%nsh != shard {
						continue
					}
					if !thorough && (idx+idx/len(gridDiffs)+idx/(len(gridDiffs)*len(dtDomain))+seed3)%3 != 0 {
						continue // quick: a seed-dependent third of the grid
					}
					c := diffCase{Kind: "difficulty", Name: n.s.Name, Chain: n.s.ChainID, HF: n.s.HF, PNum: next - 1, PTime: 1_600_000_000, Dt: dt, PDiff: pd, GpDt: 240, GpDiff: pd}
					msg, lbls := checkDiff(n, c)
					if msg != "" {
						ev.SaveCase("TestDifficultyGrid", c)
						t.Fatal(msg)
					}
					ev.Case(diffNontrivial(n, c, lbls), []byte(fmt.Sprintf("grid|%s|%d|%d|%s", sname, next, dt, pd)), lbls...)
					if idx%50021 == 0 {
						ev.Sample(c)
					}
				}
			}
		}
	}
	if ev.Thorough() {
		ev.Exhaustive(fmt.Sprintf("difficulty grid: heights {1..4} and every fork height -2..+2 of mainnet, testnet, testnet2, test, testnet3, dev, mainnet+HF8 x %d block times x %d parent difficulties", len(dtDomain), len(gridDiffs)))
	}
}

func TestDifficultyRandom(t *testing.T) {
	ev.Check(t, cases(15000, 1_000_000), func(t *rapid.T) {
		n := drawNet(t)
		pnum := drawParentNumber(t, n.s)
		c := diffCase{Kind: "difficulty", Name: n.s.Name, Chain: n.s.ChainID, HF: n.s.HF, PNum: pnum,
			PTime: rapid.SampledFrom([]uint64{1_525_000_000, 1_700_000_000, 40000, 1 << 40}).Draw(t, "ptime"),
			Dt:    drawDt(t, "dt"), PDiff: drawDiff(t, n.s, pnum+1, "pdiff").String()}
		if rapid.IntRange(0, 3).Draw(t, "hasgp") > 0 {
			c.GpDt = rapid.SampledFrom(gpDtDomain).Draw(t, "gpdt")
			c.GpDiff = drawDiff(t, n.s, pnum+1, "gpdiff").String()
		}
		msg, lbls := checkDiff(n, c)
		if msg != "" {
			t.Fatalf("%s", msg)
		}
		ev.Case(diffNontrivial(n, c, lbls), []byte(fmt.Sprintf("rnd|%s|%d|%d|%s|%d|%s", n.s, pnum, c.Dt, c.PDiff, c.GpDt, c.GpDiff)), lbls...)
		ev.Sample(c)
	})
}

// ---------- (1) VerifyHeader accepts iff the rules hold ----------

type hdrCase struct {
	Kind      string         `json:"kind"` // "header"
	Name      string         `json:"schedule"`
	Chain     uint64         `json:"chain_id"`
	HF        map[int]uint64 `json:"hf"`
	Strict    bool           `json:"reader_strict"`
	PNum      uint64         `json:"parent_number"`
	PTimeBack int64          `json:"parent_time_seconds_before_now"` // >= 0: parent time = now - this; < 0: absolute time = -this-1
	GpDt      uint64         `json:"grandparent_dt"`
	GpDiff    string         `json:"grandparent_difficulty"`
	PDiff     string         `json:"parent_difficulty"`
	PGasLimit uint64         `json:"parent_gas_limit"`
	Number    uint64         `json:"number"`
	TimeMode  string         `json:"time_mode"` // "dt" (parent+TimeArg, may be <= 0), "now" (now+TimeArg), "abs" (TimeAbs)
	TimeArg   int64          `json:"time_arg"`
	TimeAbs   string         `json:"time_abs"`
	DiffMode  string         `json:"difficulty_mode"` // "exp" (expected+DiffArg) or "abs"
	DiffArg   int64          `json:"difficulty_arg"`
	DiffAbs   string         `json:"difficulty_abs"`
	GasLimit  uint64         `json:"gas_limit"`
	GasUsed   uint64         `json:"gas_used"`
	ExtraLen  int            `json:"extra_len"`
	Seal      bool           `json:"seal"`
	FailAt    int64          `json:"fake_fail_offset"` // engine = NewFakeFailer(number+FailAt) when != noFail
}

const noFail = int64(-1 << 40)

func (c hdrCase) sched() Sched { return Sched{Name: c.Name, ChainID: c.Chain, HF: c.HF} }

func forkAt(s Sched, h uint64) (int, bool) {
	for k, f := range s.HF {
		if f == h && h > 0 {
			return k, true
		}
	}
	return 0, false
}

func only(rules []string, r string) bool { return len(rules) == 1 && rules[0] == r }

func sideLabel(bound string, rules []string, rule string) string {
	switch {
	case len(rules) == 0:
		return bound + "/accept"
	case only(rules, rule):
		return bound + "/reject-only"
	}
	return bound + "/mixed"
}

// runHeaderCase builds the parent, grandparent and candidate of c, asks the
// engine and the reference, and returns a disagreement (or "") with labels.
func runHeaderCase(c hdrCase) (msg string, lbls []string, nontrivial bool) {
	n := netFor(c.sched())
	now := nowUnix()
	ptime := now - c.PTimeBack
	if c.PTimeBack < 0 {
		ptime = -c.PTimeBack - 1
	}
	r := newReader(n.cfg, c.Strict)
	var gp *types.Header
	phash := [32]byte{0xaa}
	if c.PNum >= 1 {
		gt := ptime - int64(c.GpDt)
		if gt < 0 {
			gt = 0
		}
		gp = mkHeader(n.cfg, hdrSpec{number: c.PNum - 1, parentHash: [32]byte{0xbb}, time: bi(gt), diff: mustBig(c.GpDiff), gasLimit: c.PGasLimit, salt: 1})
		phash = r.addHeader(gp)
	}
	parent := mkHeader(n.cfg, hdrSpec{number: c.PNum, parentHash: phash, time: bi(ptime), diff: mustBig(c.PDiff), gasLimit: c.PGasLimit, salt: 2})
	parentHash := r.addHeader(parent)
	if gp != nil && gp.Time.Cmp(parent.Time) >= 0 {
		return "", nil, false // not a chain (only reachable from a hand-written case file)
	}

	var tm *big.Int
	switch c.TimeMode {
	case "dt":
		tm = bi(ptime + c.TimeArg)
	case "now":
		tm = bi(now + c.TimeArg)
	default:
		tm = mustBig(c.TimeAbs)
	}
	if tm.Sign() < 0 {
		tm = bi(0)
	}
	exp := RefDifficulty(n.s, tm, toRef(parent), toRefPtr(gp))
	diff := new(big.Int).Add(exp, bi(c.DiffArg))
	if c.DiffMode == "abs" {
		diff = mustBig(c.DiffAbs)
	}
	if diff.Sign() < 0 {
		diff = bi(0)
	}
	cand := mkHeader(n.cfg, hdrSpec{number: c.Number, parentHash: parentHash, time: tm, diff: diff, gasLimit: c.GasLimit, gasUsed: c.GasUsed, extraLen: c.ExtraLen, salt: 3})

	engine := aquahash.NewFaker()
	failAt := uint64(0) // NewFaker fails the seal of block 0
	if c.FailAt != noFail {
		failAt = uint64(int64(c.Number) + c.FailAt)
		engine = aquahash.NewFakeFailer(failAt)
	}
	mode := RefMode{ClockLimit: bi(now + 15), SealChecked: c.Seal, SealFailAt: &failAt}
	rules := RefHeaderRules(n.s, toRef(cand), toRef(parent), toRefPtr(gp), mode)

	err := engine.VerifyHeader(r, cand, c.Seal)
	if (err == nil) != (len(rules) == 0) {
		return fmt.Sprintf("VerifyHeader verdict %v, rules broken per reference: %v\nschedule %s\nparent  #%d time=%v diff=%v gasLimit=%d\ncandidate #%d time=%v (parent%+d, now%+d) diff=%v (expected %v) gasLimit=%d gasUsed=%d extra=%d seal=%v failAt=%d",
			err, rules, n.s, c.PNum, parent.Time, parent.Difficulty, parent.GasLimit, c.Number, tm, new(big.Int).Sub(tm, parent.Time), new(big.Int).Sub(tm, bi(now)), diff, exp, c.GasLimit, c.GasUsed, c.ExtraLen, c.Seal, failAt), nil, false
	}

	// classification: which bounds does the candidate sit on
	add := func(l string) { lbls = append(lbls, l); nontrivial = true }
	if len(rules) == 0 {
		lbls = append(lbls, "hdr:accept")
	} else {
		lbls = append(lbls, "hdr:reject")
		if len(rules) == 1 {
			lbls = append(lbls, "hdr:reject-only:"+rules[0])
		}
		for _, r := range rules {
			lbls = append(lbls, "hdr:broken:"+r)
		}
	}
	switch c.ExtraLen {
	case 32:
		add(sideLabel("b:extra=32", rules, "extra"))
	case 33:
		add(sideLabel("b:extra=33", rules, "extra"))
	}
	switch d := new(big.Int).Sub(tm, parent.Time); {
	case d.Cmp(bi(1)) == 0:
		add(sideLabel("b:time=parent+1", rules, "time"))
	case d.Sign() == 0:
		add(sideLabel("b:time=parent", rules, "time"))
	case d.Cmp(bi(-1)) == 0:
		add(sideLabel("b:time=parent-1", rules, "time"))
	}
	if c.TimeMode == "now" {
		if c.TimeArg < 0 {
			add(sideLabel("b:time=now-5s", rules, "future"))
		} else {
			add(sideLabel("b:time=now+60s", rules, "future"))
		}
	}
	switch c.GasLimit {
	case 5000:
		add(sideLabel("b:gaslimit=5000", rules, "gasmin"))
	case 4999:
		add(sideLabel("b:gaslimit=4999", rules, "gasmin"))
	case 1<<63 - 1:
		add(sideLabel("b:gaslimit=2^63-1", rules, "gascap"))
	case 1 << 63:
		add(sideLabel("b:gaslimit=2^63", rules, "gascap"))
	}
	bound := parent.GasLimit / 1024
	delta := c.GasLimit - parent.GasLimit
	if c.GasLimit < parent.GasLimit {
		delta = parent.GasLimit - c.GasLimit
	}
	if bound > 0 && delta == bound-1 {
		add(sideLabel("b:gasdelta=bound-1", rules, "gasdelta"))
	} else if delta == bound {
		add(sideLabel("b:gasdelta=bound", rules, "gasdelta"))
	}
	if c.GasUsed == c.GasLimit {
		add(sideLabel("b:gasused=limit", rules, "gasused"))
	} else if c.GasUsed == c.GasLimit+1 && c.GasLimit != 1<<64-1 {
		add(sideLabel("b:gasused=limit+1", rules, "gasused"))
	}
	switch d := new(big.Int).Sub(diff, exp); {
	case d.Sign() == 0:
		lbls = append(lbls, sideLabel("b:difficulty=expected", rules, "difficulty"))
	case d.Cmp(bi(-1)) == 0:
		add(sideLabel("b:difficulty=expected-1", rules, "difficulty"))
	case d.Cmp(bi(1)) == 0:
		add(sideLabel("b:difficulty=expected+1", rules, "difficulty"))
	}
	switch int64(c.Number) - int64(c.PNum) {
	case 1:
		lbls = append(lbls, sideLabel("b:number=parent+1", rules, "number"))
	case 0:
		add(sideLabel("b:number=parent", rules, "number"))
	case 2:
		add(sideLabel("b:number=parent+2", rules, "number"))
	case -1:
		add(sideLabel("b:number=parent-1", rules, "number"))
	}
	if c.Seal && c.FailAt == 0 {
		add(sideLabel("b:seal=fail-height", rules, "seal"))
	}
	e := epochFor(n.s, c.PNum+1)
	if e.reset != 0 {
		add("hdr:child-is-fork-block")
	}
	for _, f := range n.s.forkHeights() {
		if c.PNum+3 >= f && c.PNum+1 <= f+2 {
			lbls = append(lbls, "hdr:fork-window:"+strings.SplitN(n.s.Name, "@", 2)[0])
			break
		}
	}
	if _, isFork := forkAt(n.s, c.PNum+1); isFork && c.Number == c.PNum+1 && n.s.Name != "custom" && !strings.HasPrefix(n.s.Name, "mainnet+") {
		lbls = append(lbls, fmt.Sprintf("hdr:fork-block:%s@%d", n.s.Name, c.PNum+1))
	}
	return "", lbls, nontrivial
}

func drawHeaderCase(t *rapid.T) hdrCase {
	n := drawNet(t)
	c := hdrCase{Kind: "header", Name: n.s.Name, Chain: n.s.ChainID, HF: n.s.HF, FailAt: noFail}
	c.Strict = rapid.Bool().Draw(t, "strict")
	c.PNum = drawParentNumber(t, n.s)
	if rapid.IntRange(0, 9).Draw(t, "ptimekind") == 0 {
		c.PTimeBack = -1 - int64(rapid.SampledFrom([]uint64{1, 2, 1000, 1_525_000_000}).Draw(t, "ptimeabs"))
	} else {
		c.PTimeBack = int64(rapid.Uint64Range(7200, 100_000_000).Draw(t, "ptimeback"))
	}
	c.GpDt = rapid.SampledFrom(gpDtDomain).Draw(t, "gpdt")
	c.GpDiff = drawDiff(t, n.s, c.PNum+1, "gpdiff").String()
	c.PDiff = drawDiff(t, n.s, c.PNum+1, "pdiff").String()

	// parent gas limit by scenario
	switch rapid.IntRange(0, 9).Draw(t, "gasscenario") {
	case 0, 1: // around the floor
		c.PGasLimit = uint64(rapid.IntRange(5000, 5130).Draw(t, "pgl"))
	case 2: // at the cap
		c.PGasLimit = 1<<63 - 1 - uint64(rapid.SampledFrom([]int{0, 0, 1, 1000}).Draw(t, "pglcap"))
	case 3: // degenerate (a genesis can carry anything)
		c.PGasLimit = rapid.SampledFrom([]uint64{0, 1, 1023, 1024, 2047, 4999}).Draw(t, "pgltiny")
	case 4: // multiples of the divisor
		c.PGasLimit = 1024 * uint64(rapid.IntRange(5, 10000).Draw(t, "pglmul"))
	default:
		c.PGasLimit = rapid.SampledFrom([]uint64{4712388, 8000000, 4712387, 1 << 32, 123456789}).Draw(t, "pglreal")
	}
	bound := c.PGasLimit / 1024

	pert := func(label string) bool { return rapid.IntRange(0, 7).Draw(t, label) == 0 }

	// number
	c.Number = c.PNum + 1
	if pert("pnumber") {
		c.Number = uint64(int64(c.PNum) + int64(rapid.SampledFrom([]int{-1, 0, 2, 2, 0}).Draw(t, "numoff")))
		if c.PNum == 0 && c.Number > 1<<62 {
			c.Number = 0
		}
	}
	// time
	c.TimeMode, c.TimeArg = "dt", int64(drawDt(t, "dt"))
	if pert("ptime") {
		switch rapid.IntRange(0, 5).Draw(t, "timekind") {
		case 0:
			c.TimeArg = 0
		case 1:
			c.TimeArg = -1
		case 2:
			c.TimeArg = 1
		case 3:
			c.TimeMode, c.TimeArg = "now", -5-int64(rapid.IntRange(0, 600).Draw(t, "past"))
		case 4:
			c.TimeMode, c.TimeArg = "now", 60+int64(rapid.IntRange(0, 100000).Draw(t, "future"))
		case 5:
			c.TimeMode = "abs"
			c.TimeAbs = rapid.SampledFrom([]string{"9223372036854775807", "9223372036854775808", "18446744073709551615", "18446744073709551616", "18446744075309551616"}).Draw(t, "timeabs")
		}
	} else if c.PTimeBack < 0 && rapid.Bool().Draw(t, "nowforold") {
		c.TimeMode, c.TimeArg = "now", -5-int64(rapid.IntRange(0, 600).Draw(t, "past"))
	}
	// extra
	c.ExtraLen = rapid.SampledFrom([]int{0, 0, 5, 31, 32, 32}).Draw(t, "extra")
	if pert("pextra") {
		c.ExtraLen = rapid.SampledFrom([]int{33, 33, 34, 64, 1000}).Draw(t, "extrabad")
	}
	// gas limit
	c.GasLimit = c.PGasLimit
	okDelta := func() uint64 {
		if bound == 0 {
			return 0
		}
		return rapid.SampledFrom([]uint64{0, 0, 1 % bound, bound - 1, bound - 1, bound / 2}).Draw(t, "gldelta")
	}
	d := okDelta()
	if rapid.Bool().Draw(t, "glup") {
		if c.PGasLimit+d >= c.PGasLimit && c.PGasLimit+d < 1<<63 {
			c.GasLimit = c.PGasLimit + d
		}
	} else if c.PGasLimit-d <= c.PGasLimit && c.PGasLimit-d >= 5000 {
		c.GasLimit = c.PGasLimit - d
	}
	if pert("pgaslimit") {
		switch rapid.IntRange(0, 6).Draw(t, "glkind") {
		case 0:
			c.GasLimit = c.PGasLimit + bound
		case 1:
			c.GasLimit = c.PGasLimit - bound
		case 2:
			c.GasLimit = c.PGasLimit + bound + 1
		case 3:
			c.GasLimit = 4999
		case 4:
			c.GasLimit = 1 << 63
		case 5:
			c.GasLimit = rapid.SampledFrom([]uint64{0, 1, 5000, 1<<63 - 1, 1<<64 - 1, 1<<63 + 1000}).Draw(t, "glabs")
		case 6:
			c.GasLimit = c.PGasLimit - bound - 1
		}
	}
	// gas used
	someGas := uint64(21000)
	if someGas > c.GasLimit {
		someGas = c.GasLimit
	}
	c.GasUsed = rapid.SampledFrom([]uint64{0, 0, someGas, c.GasLimit, c.GasLimit, c.GasLimit - 1}).Draw(t, "gasused")
	if c.GasUsed > c.GasLimit {
		c.GasUsed = 0
	}
	if pert("pgasused") {
		c.GasUsed = rapid.SampledFrom([]uint64{c.GasLimit + 1, c.GasLimit + 1, c.GasLimit + 2, 1<<64 - 1}).Draw(t, "gasusedbad")
	}
	// difficulty
	c.DiffMode = "exp"
	if pert("pdifficulty") {
		switch rapid.IntRange(0, 5).Draw(t, "diffkind") {
		case 0:
			c.DiffArg = -1
		case 1:
			c.DiffArg = 1
		case 2:
			c.DiffMode, c.DiffAbs = "abs", c.PDiff
		case 3:
			c.DiffMode, c.DiffAbs = "abs", bi(epochFor(n.s, c.PNum+1).minimum-1).String()
		case 4:
			c.DiffMode, c.DiffAbs = "abs", "0"
		case 5: // the previous epoch's value: the same parent judged as if no fork had happened at or after its height
			old := Sched{Name: "old", ChainID: n.s.ChainID, HF: map[int]uint64{}}
			for k, v := range n.s.HF {
				if v+3 < c.PNum {
					old.HF[k] = v
				}
			}
			now := nowUnix()
			pt := now - c.PTimeBack
			if c.PTimeBack < 0 {
				pt = -c.PTimeBack - 1
			}
			p := RefHeader{Number: new(big.Int).SetUint64(c.PNum), Time: bi(pt), Difficulty: mustBig(c.PDiff)}
			tm := bi(pt + c.TimeArg)
			if c.TimeMode != "dt" {
				tm = bi(pt + 1000)
			}
			c.DiffMode, c.DiffAbs = "abs", RefDifficulty(old, tm, p, nil).String()
		}
	}
	// seal
	c.Seal = rapid.Bool().Draw(t, "seal")
	if rapid.IntRange(0, 9).Draw(t, "failer") == 0 {
		c.FailAt = int64(rapid.SampledFrom([]int{0, 0, 0, 1, -1, 1000}).Draw(t, "failoff"))
		if c.FailAt == 0 {
			c.Seal = rapid.IntRange(0, 3).Draw(t, "sealon") > 0
		}
	}
	return c
}

func canonHeaderCase(c hdrCase) []byte {
	b, _ := json.Marshal(c)
	return b
}

func TestVerifyHeaderIff(t *testing.T) {
	ev.Check(t, cases(20000, 640_000), func(t *rapid.T) {
		c := drawHeaderCase(t)
		msg, lbls, nt := runHeaderCase(c)
		if msg != "" {
			t.Fatalf("%s", msg)
		}
		ev.Case(nt, canonHeaderCase(c), lbls...)
		ev.Sample(c)
	})
}

// ---------- saved cases ----------

func replayFile(t *testing.T, path string) {
	b, err := os.ReadFile(path)
	if err != nil {
		t.Fatal(err)
	}
	var probe struct {
		Kind string `json:"kind"`
	}
	if err := json.Unmarshal(b, &probe); err != nil {
		t.Fatalf("%s: %v", path, err)
	}
	switch probe.Kind {
	case "difficulty":
		var c diffCase
		if err := json.Unmarshal(b, &c); err != nil {
			t.Fatalf("%s: %v", path, err)
		}
		if msg, lbls := checkDiff(netFor(c.sched()), c); msg != "" {
			t.Errorf("%s: %s", path, msg)
		} else {
			ev.Case(true, append([]byte("file:"), b...), append(lbls, "corpus")...)
		}
	case "header":
		var c hdrCase
		if err := json.Unmarshal(b, &c); err != nil {
			t.Fatalf("%s: %v", path, err)
		}
		if msg, lbls, _ := runHeaderCase(c); msg != "" {
			t.Errorf("%s: %s", path, msg)
		} else {
			ev.Case(true, append([]byte("file:"), b...), append(lbls, "corpus")...)
		}
	default:
		t.Logf("%s: not a replayable case (%q)", path, probe.Kind)
	}
}

func TestCorpusReplay(t *testing.T) {
	dir := os.Getenv("VERIF_CORPUS")
	ents, _ := os.ReadDir(dir)
	for _, e := range ents {
		if strings.HasSuffix(e.Name(), ".json") {
			replayFile(t, dir+"/"+e.Name())
		}
	}
}

func TestReplay(t *testing.T) {
	p := ev.ReplayPath()
	if p == "" {
		t.Skip("no VERIF_REPLAY")
	}
	replayFile(t, p)
}
