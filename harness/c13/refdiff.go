// refdiff: an independent statement of aquachain's header rules and difficulty
// schedule, written from the comments in params/config.go, params/protocol_params.go
// and the property statement. It imports nothing from the repository under test:
// every constant and every fork height is restated here, so that an edit to the
// node's tables (or to calcDifficultyHFX) shows up as a disagreement.
package c13

import (
	"fmt"
	"math/big"
	"sort"
)

// ---------- schedules ----------

// Sched is a fork schedule: chain id plus the activation height of each
// scheduled hard fork (absent = never).
type Sched struct {
	Name    string
	ChainID uint64
	HF      map[int]uint64
}

const mainnetChainID = 61717561

// Named schedules, restated from the comments of params/config.go.
var (
	schedMainnet = Sched{"mainnet", mainnetChainID, map[int]uint64{
		1: 3600,  // increase min difficulty to the next multiple of 2048
		2: 7200,  // simple difficulty algo (240 seconds)
		3: 13026, // increase min difficulty (gpu)
		4: 21800, // supply
		5: 22800, // argon2id
		6: 36000, // divisor increase
		7: 36050, // eip 155, 158
	}}
	schedTestnet  = Sched{"testnet", 617175611, map[int]uint64{1: 1, 2: 2, 3: 3, 4: 4, 5: 5, 6: 6, 7: 25, 8: 650}}
	schedTestnet2 = Sched{"testnet2", 617175612, map[int]uint64{5: 0, 6: 0, 7: 0, 8: 8, 9: 19}}
	schedTestnet3 = Sched{"testnet3", 617175613, map[int]uint64{5: 0, 7: 0}}
	schedTest     = Sched{"test", 3, map[int]uint64{1: 1, 2: 2, 3: 3, 4: 4, 5: 5, 6: 6, 7: 7}}
	schedDev      = Sched{"dev", 1337, map[int]uint64{1: 0, 2: 0, 3: 0, 4: 0, 5: 0, 6: 0, 7: 0}}
)

func (s Sched) active(hf int, n uint64) bool {
	h, ok := s.HF[hf]
	return ok && h <= n
}

func (s Sched) at(hf int, n uint64) bool {
	h, ok := s.HF[hf]
	return ok && h == n
}

// forkHeights returns the distinct positive fork heights in ascending order.
func (s Sched) forkHeights() []uint64 {
	seen := map[uint64]bool{}
	var out []uint64
	for _, h := range s.HF {
		if h > 0 && !seen[h] {
			seen[h] = true
			out = append(out, h)
		}
	}
	sort.Slice(out, func(i, j int) bool { return out[i] < out[j] })
	return out
}

func (s Sched) String() string {
	var ks []int
	for k := range s.HF {
		ks = append(ks, k)
	}
	sort.Ints(ks)
	out := fmt.Sprintf("%s/chain=%d", s.Name, s.ChainID)
	for _, k := range ks {
		out += fmt.Sprintf(" %d:%d", k, s.HF[k])
	}
	return out
}

// headerVersion: 1 ethash, 2 argon2id from HF5, 3 from HF8, 4 from HF9.
func (s Sched) headerVersion(n uint64) byte {
	switch {
	case s.active(9, n):
		return 4
	case s.active(8, n):
		return 3
	case s.active(5, n):
		return 2
	}
	return 1
}

// maxUncles: 2, then 1 from HF5.
func (s Sched) maxUncles(n uint64) int {
	if s.active(5, n) {
		return 1
	}
	return 2
}

// ---------- difficulty table ----------

const (
	minGenesis = 99999999
	minHF1     = 100001792   // "a nice multiple of 2048"
	minHF3     = 30959185800 // 3095918580 * 10, "GPU announcement"
	minHF5     = 46039386    // "Argon2id announcement"; also the reset value of the HF5 and HF8 fork blocks
)

type algo int

const (
	algoStarting    algo = iota // first blocks: homestead-style, divisor 2048, 10 s steps
	algoHF1                     // same with the HF1 minimum
	algoSimple                  // HF2: parent ± parent/divisor around the duration limit
	algoGrandparent             // HF10 (experimental): homestead-style on the grandparent, 240 s steps
)

// epoch is one row of the schedule table as it applies to a block height.
type epoch struct {
	algo    algo
	divisor int64 // simple: bound divisor
	minimum int64 // simple: floor
	limit   int64 // simple: duration limit in seconds
	reset   int64 // != 0: the fork block's fixed difficulty
}

func epochFor(s Sched, next uint64) epoch {
	e := epoch{algo: algoStarting, divisor: 2048, minimum: minGenesis, limit: 240}
	// floor
	switch {
	case s.active(5, next):
		e.minimum = minHF5
	case s.active(3, next):
		e.minimum = minHF3
	case s.active(1, next):
		e.minimum = minHF1
	}
	// bound divisor
	switch {
	case s.active(8, next):
		e.divisor = 1024
	case s.active(6, next):
		e.divisor = 128
	case s.active(5, next):
		e.divisor = 16
	}
	if s.active(6, next) {
		e.limit = 180
	}
	// algorithm
	switch {
	case s.active(10, next):
		e.algo = algoGrandparent
		return e
	case s.active(2, next):
		e.algo = algoSimple
	case s.active(1, next):
		e.algo = algoHF1
	}
	// difficulty resets at fork blocks
	switch {
	case s.at(8, next), s.at(5, next):
		e.reset = minHF5
	case s.at(3, next):
		e.reset = minHF3
	case s.at(1, next) && e.algo != algoSimple:
		e.reset = minHF1
	}
	return e
}

// RefHeader is the part of a header the rules speak about.
type RefHeader struct {
	Number     *big.Int
	Time       *big.Int
	Difficulty *big.Int
	GasLimit   uint64
	GasUsed    uint64
	ExtraLen   int
}

func floorDiv(a *big.Int, d int64) *big.Int {
	q, m := new(big.Int).DivMod(a, big.NewInt(d), new(big.Int)) // Euclidean; divisor positive => floor
	_ = m
	return q
}

func bigMax(a, b *big.Int) *big.Int {
	if a.Cmp(b) >= 0 {
		return a
	}
	return b
}

// homestead: base + base/divisor * max(1 - dt/step, -99)
func homestead(base *big.Int, dt *big.Int, divisor, step int64) *big.Int {
	x := new(big.Int).Sub(big.NewInt(1), floorDiv(dt, step))
	if x.Cmp(big.NewInt(-99)) < 0 {
		x.SetInt64(-99)
	}
	y := floorDiv(base, divisor)
	return new(big.Int).Add(base, y.Mul(y, x))
}

// RefDifficulty is the scheduled difficulty of the child of parent at the given
// time. gp (the parent's parent) may be nil when the parent is the first block.
func RefDifficulty(s Sched, time *big.Int, parent RefHeader, gp *RefHeader) *big.Int {
	next := new(big.Int).Add(parent.Number, big.NewInt(1)).Uint64()
	e := epochFor(s, next)
	dt := new(big.Int).Sub(time, parent.Time)
	mainnet := s.ChainID == mainnetChainID
	switch {
	case e.algo == algoGrandparent:
		if gp == nil {
			return new(big.Int).Set(parent.Difficulty)
		}
		div := int64(16)
		if s.active(8, parent.Number.Uint64()) {
			div = 1024
		}
		d := homestead(gp.Difficulty, new(big.Int).Sub(parent.Time, gp.Time), div, 240)
		return bigMax(big.NewInt(minHF5), d)
	case e.reset != 0:
		return big.NewInt(e.reset)
	case e.algo == algoStarting, e.algo == algoHF1:
		d := homestead(parent.Difficulty, dt, 2048, 10)
		if mainnet { // "testnet no minimum"
			floor := int64(minGenesis)
			if e.algo == algoHF1 {
				floor = minHF1
			}
			d = bigMax(d, big.NewInt(floor))
		}
		return d
	}
	adjust := floorDiv(parent.Difficulty, e.divisor)
	d := new(big.Int)
	if dt.Cmp(big.NewInt(e.limit)) < 0 {
		d.Add(parent.Difficulty, adjust)
	} else {
		d.Sub(parent.Difficulty, adjust)
	}
	return bigMax(d, big.NewInt(e.minimum))
}

// ---------- header rules ----------

var (
	two63  = new(big.Int).Lsh(big.NewInt(1), 63)
	two64  = new(big.Int).Lsh(big.NewInt(1), 64)
	two256 = new(big.Int).Lsh(big.NewInt(1), 256)
)

// RefMode says in which role a header is judged.
type RefMode struct {
	Uncle       bool
	ClockLimit  *big.Int // latest acceptable timestamp (now + 15 s); unused for uncles
	SealChecked bool
	SealFailAt  *uint64 // the fake engine's failing block number, nil = none
}

// RefHeaderRules returns the names of the rules h breaks relative to parent
// (empty = acceptable). Every rule is evaluated, so a caller can see whether a
// candidate fails exactly one.
func RefHeaderRules(s Sched, h, parent RefHeader, gp *RefHeader, m RefMode) []string {
	var bad []string
	if h.ExtraLen > 32 {
		bad = append(bad, "extra")
	}
	if m.Uncle {
		// an uncle is not measured against the clock, but a timestamp that does not
		// fit 64 bits is later than any clock the node can ever read
		if h.Time.Cmp(two64) >= 0 {
			bad = append(bad, "time-range")
		}
	} else if h.Time.Cmp(m.ClockLimit) > 0 {
		bad = append(bad, "future")
	}
	if h.Time.Cmp(parent.Time) <= 0 {
		bad = append(bad, "time")
	}
	if h.Difficulty.Cmp(RefDifficulty(s, h.Time, parent, gp)) != 0 {
		bad = append(bad, "difficulty")
	}
	gl := new(big.Int).SetUint64(h.GasLimit)
	if gl.Cmp(two63) >= 0 {
		bad = append(bad, "gascap")
	}
	if h.GasUsed > h.GasLimit {
		bad = append(bad, "gasused")
	}
	pgl := new(big.Int).SetUint64(parent.GasLimit)
	delta := new(big.Int).Sub(gl, pgl)
	delta.Abs(delta)
	if delta.Cmp(floorDiv(pgl, 1024)) >= 0 {
		bad = append(bad, "gasdelta")
	}
	if h.GasLimit < 5000 {
		bad = append(bad, "gasmin")
	}
	if new(big.Int).Sub(h.Number, parent.Number).Cmp(big.NewInt(1)) != 0 {
		bad = append(bad, "number")
	}
	if m.SealChecked && m.SealFailAt != nil && h.Number.IsUint64() && h.Number.Uint64() == *m.SealFailAt {
		bad = append(bad, "seal")
	}
	return bad
}
