package c13

import (
	"fmt"
	"math/big"
	"runtime"
	"strings"
	"testing"
	"time"

	"gitlab.com/aquachain/aquachain/consensus/aquahash"
	"gitlab.com/aquachain/aquachain/core/types"
	"pgregory.net/rapid"
	"verifharness/ev"
)

var procsList = []int{1, 2, 3, 8, 16}

func errText(err error) string {
	if err == nil {
		return "<nil>"
	}
	return err.Error()
}

// collect reads up to want results from a VerifyHeaders results channel.
func collect(results <-chan error, want int) ([]error, bool) {
	out := make([]error, 0, want)
	deadline := time.After(60 * time.Second)
	for len(out) < want {
		select {
		case err := <-results:
			out = append(out, err)
		case <-deadline:
			return out, false
		}
	}
	return out, true
}

func TestBatchMatchesSequential(t *testing.T) {
	defer runtime.GOMAXPROCS(runtime.GOMAXPROCS(0))
	maxLen := ev.Pick(24, 64)
	reps := ev.Pick(1, 2)
	ev.Check(t, cases(300, 4_800), func(t *rapid.T) {
		n := drawNet(t)
		pnum := drawParentNumber(t, n.s)
		strict := rapid.Bool().Draw(t, "strict")
		r := newReader(n.cfg, strict)
		tb := &treeBuilder{n: n, r: r}
		now := nowUnix()
		desc := []string{n.s.String(), fmt.Sprint("parent#", pnum, " strict=", strict)}

		// the chain the batch builds on: (grandparent,) parent
		startDiff := drawDiff(t, n.s, pnum+1, "startdiff")
		ptime := now - int64(rapid.Uint64Range(500_000, 50_000_000).Draw(t, "ptimeback"))
		var parent *types.Header
		if pnum >= 1 {
			gp := mkHeader(n.cfg, hdrSpec{number: pnum - 1, parentHash: [32]byte{0xbb}, time: bi(ptime - int64(rapid.SampledFrom(gpDtDomain).Draw(t, "gpdt"))), diff: startDiff, gasLimit: 4712388, salt: 1})
			r.addHeader(gp)
			parent = mkHeader(n.cfg, hdrSpec{number: pnum, parentHash: gp.Hash(), time: bi(ptime), diff: startDiff, gasLimit: 4712388, salt: 2})
		} else {
			parent = mkHeader(n.cfg, hdrSpec{number: 0, time: bi(ptime), diff: startDiff, gasLimit: 4712388, salt: 2})
		}
		r.addHeader(parent)

		L := rapid.IntRange(1, maxLen).Draw(t, "len")
		if rapid.IntRange(0, 2).Draw(t, "short") == 0 {
			L = rapid.IntRange(1, 6).Draw(t, "shortlen")
		}
		// where the invalid members sit
		bad := map[int]string{}
		kinds := []string{"extra33", "time=parent", "diff+1", "diff-1", "gasdelta=bound", "gasused>limit", "future", "gaslimit=2^63"}
		for i, nb := 0, rapid.SampledFrom([]int{0, 1, 1, 1, 2}).Draw(t, "nbad"); i < nb; i++ {
			pos := rapid.SampledFrom([]int{0, L - 1, L / 2, rapid.IntRange(0, L-1).Draw(t, "badany")}).Draw(t, "badpos")
			bad[pos] = rapid.SampledFrom(kinds).Draw(t, "badkind")
		}
		headers := make([]*types.Header, L)
		prev, prevGp := parent, r.headers[parent.ParentHash]
		scratch := r.clone() // lets tb.child see grandparents inside the batch
		tb.r = scratch
		for i := 0; i < L; i++ {
			h := tb.child(prev, drawDt(t, "dt"), rapid.SampledFrom([]int{0, 0, 32}).Draw(t, "extra"))
			if h.GasLimit/1024 > 1 && rapid.Bool().Draw(t, "gasmove") {
				h.GasLimit += h.GasLimit/1024 - 1
			}
			// listed finding: under an HF10 schedule the child of a header whose time is
			// not later than its parent's makes calcDifficultyGrandparent panic in a worker
			if bad[i] == "time=parent" && i+1 < L && n.s.active(10, pnum+2+uint64(i)) && ev.Known(kfHF10Panic) {
				ev.Excluded(kfHF10Panic)
				bad[i] = "diff+1"
			}
			switch bad[i] {
			case "extra33":
				h.Extra = make([]byte, 33)
			case "time=parent":
				h.Time = new(big.Int).Set(prev.Time)
				h.Difficulty = RefDifficulty(n.s, h.Time, toRef(prev), toRefPtr(prevGp))
			case "diff+1":
				h.Difficulty = new(big.Int).Add(h.Difficulty, bi(1))
			case "diff-1":
				h.Difficulty = new(big.Int).Sub(h.Difficulty, bi(1))
			case "gasdelta=bound":
				h.GasLimit = prev.GasLimit + prev.GasLimit/1024
			case "gasused>limit":
				h.GasUsed = h.GasLimit + 1
			case "future":
				h.Time = bi(now + 60 + int64(rapid.IntRange(0, 5000).Draw(t, "futureby")))
				h.Difficulty = RefDifficulty(n.s, h.Time, toRef(prev), toRefPtr(prevGp))
			case "gaslimit=2^63":
				h.GasLimit = 1 << 63
			}
			headers[i] = h
			scratch.addHeader(h)
			prev, prevGp = h, prev
		}
		for i := 0; i < L; i++ {
			if k, ok := bad[i]; ok {
				desc = append(desc, fmt.Sprintf("bad[%d]=%s", i, k))
			}
		}

		// seal flags as the two callers set them (all / sparse with the last one) or mixed
		seals := make([]bool, L)
		sealMode := rapid.SampledFrom([]string{"all", "sparse", "mixed", "none"}).Draw(t, "sealmode")
		for i := range seals {
			switch sealMode {
			case "all":
				seals[i] = true
			case "sparse":
				seals[i] = i == L-1 || rapid.IntRange(0, 7).Draw(t, "sparse") == 0
			case "mixed":
				seals[i] = rapid.Bool().Draw(t, "seal")
			}
		}

		// engine
		var delay time.Duration
		failAt, hasFail := uint64(0), false
		mkEngine := func() *aquahash.Aquahash { return aquahash.NewFaker() }
		switch rapid.SampledFrom([]string{"faker", "delayer", "delayer", "failer"}).Draw(t, "engine") {
		case "delayer":
			delay = time.Duration(rapid.SampledFrom([]int{20, 100, 300, 1000}).Draw(t, "delayus")) * time.Microsecond
			mkEngine = func() *aquahash.Aquahash { return aquahash.NewFakeDelayer(delay) }
		case "failer":
			hasFail = true
			failAt = pnum + 1 + uint64(rapid.SampledFrom([]int{0, L - 1, L / 2, L, rapid.IntRange(0, L-1).Draw(t, "failany")}).Draw(t, "failpos"))
			mkEngine = func() *aquahash.Aquahash { return aquahash.NewFakeFailer(failAt) }
			if i := int(failAt - pnum - 1); i < L && rapid.IntRange(0, 3).Draw(t, "sealthere") > 0 {
				seals[i] = true
			}
		}
		desc = append(desc, fmt.Sprint("len=", L, " seals=", sealMode, " delay=", delay, " failAt=", failAt, "/", hasFail))

		// reference: first index whose header breaks a rule relative to its predecessor
		refFail, refRules := -1, []string(nil)
		{
			p, g := parent, r.headers[parent.ParentHash]
			for i, h := range headers {
				fa := failAt
				rules := RefHeaderRules(n.s, toRef(h), toRef(p), toRefPtr(g), RefMode{ClockLimit: bi(now + 15), SealChecked: seals[i], SealFailAt: &fa})
				if len(rules) > 0 {
					refFail, refRules = i, rules
					break
				}
				p, g = h, p
			}
		}
		// some valid prefix may already be known to the chain
		known := 0
		if rapid.IntRange(0, 4).Draw(t, "knownprefix") == 0 {
			lim := L
			if refFail >= 0 {
				lim = refFail
			}
			known = rapid.IntRange(0, lim).Draw(t, "known")
			for i := 0; i < known; i++ {
				r.addHeader(headers[i])
			}
		}

		// sequential: one by one on a reader extended with each accepted header
		seqFail, seqErr := -1, error(nil)
		{
			rs := r.clone()
			e := mkEngine()
			for i, h := range headers {
				if err := e.VerifyHeader(rs, h, seals[i]); err != nil {
					seqFail, seqErr = i, err
					break
				}
				rs.addHeader(h)
			}
		}
		if seqFail != refFail {
			t.Fatalf("one-by-one VerifyHeader fails first at %d (%v), reference at %d (%v)\n%s", seqFail, seqErr, refFail, refRules, strings.Join(desc, "\n"))
		}

		aborted := false
		for _, procs := range procsList {
			runtime.GOMAXPROCS(procs)
			for rep := 0; rep < reps; rep++ {
				abort, results := mkEngine().VerifyHeaders(r, headers, seals)
				want := L
				early := refFail >= 0 && rapid.Bool().Draw(t, "abortearly")
				if early {
					want = refFail + 1 // what InsertChain reads before it closes abort
				}
				got, ok := collect(results, want)
				close(abort)
				if !ok {
					t.Fatalf("VerifyHeaders (GOMAXPROCS=%d) delivered %d of %d results within 60 s\n%s", procs, len(got), want, strings.Join(desc, "\n"))
				}
				first := -1
				for i, err := range got {
					if err != nil {
						first = i
						break
					}
				}
				if first != seqFail || (first >= 0 && errText(got[first]) != errText(seqErr)) {
					var ge error
					if first >= 0 {
						ge = got[first]
					}
					t.Fatalf("VerifyHeaders (GOMAXPROCS=%d) first failure at %d (%v); one-by-one at %d (%v); reference at %d (%v)\n%s",
						procs, first, ge, seqFail, seqErr, refFail, refRules, strings.Join(desc, "\n"))
				}
				if early {
					aborted = true
				} else {
					select {
					case extra, open := <-results:
						if open {
							t.Fatalf("VerifyHeaders (GOMAXPROCS=%d) delivered more than %d results (extra: %v)", procs, L, extra)
						}
					default:
					}
				}
			}
			ev.Label(fmt.Sprint("batch:procs=", procs))
		}

		lbls := []string{}
		switch {
		case refFail < 0:
			lbls = append(lbls, "batch:all-valid")
		case refFail == 0:
			lbls = append(lbls, "batch:fail-first")
		case refFail == L-1:
			lbls = append(lbls, "batch:fail-last")
		default:
			lbls = append(lbls, "batch:fail-middle")
		}
		if refFail >= 0 {
			lbls = append(lbls, "batch:fail:"+strings.Join(refRules, "+"))
			if refRules[0] == "seal" {
				lbls = append(lbls, "batch:seal-failure")
			}
		}
		if delay > 0 {
			lbls = append(lbls, "batch:delayed")
		}
		if known > 0 {
			lbls = append(lbls, "batch:known-prefix")
		}
		if aborted {
			lbls = append(lbls, "batch:aborted-early")
		}
		if L >= 17 {
			lbls = append(lbls, "batch:longer-than-16-workers")
		}
		for _, f := range n.s.forkHeights() {
			if pnum+1 <= f && f <= pnum+uint64(L) {
				lbls = append(lbls, "batch:crosses-fork")
				break
			}
		}
		canon := strings.Join(desc, "|")
		for _, h := range headers {
			canon += fmt.Sprintf("|%v,%v,%d", new(big.Int).Sub(h.Time, parent.Time), h.Difficulty, h.GasLimit)
		}
		ev.Case(refFail >= 0 || delay > 0, []byte(canon), lbls...)
		ev.Sample(map[string]interface{}{"kind": "batch", "case": desc, "first_failure": refFail, "rules": refRules})
	})
}

// TestKnownHF10GrandparentPanic is the fixed witness of the listed finding:
// with HF10 (grandparent difficulty, beyond KnownHF) scheduled, CalcDifficulty
// panics ("invalid code") for a parent that is not later than its grandparent.
// Batch verification reaches that state for the child of a header whose
// timestamp equals its parent's: the worker goroutine panics and takes the
// process down instead of reporting the timestamp error at the earlier index.
func TestKnownHF10GrandparentPanic(t *testing.T) {
	n := customNet(Sched{Name: "hf10", ChainID: 424242, HF: map[int]uint64{2: 0, 5: 0, 10: 3}})
	gp := mkHeader(n.cfg, hdrSpec{number: 5, time: bi(1_600_000_000), diff: bi(minHF5 * 2), gasLimit: 4712388, salt: 1})
	parent := mkHeader(n.cfg, hdrSpec{number: 6, parentHash: gp.Hash(), time: bi(1_600_000_000), diff: bi(minHF5 * 2), gasLimit: 4712388, salt: 2})
	panicked := func() (p interface{}) {
		defer func() { p = recover() }()
		aquahash.CalcDifficulty(n.cfg, 1_600_000_010, parent, gp)
		return nil
	}()
	ev.Case(true, []byte("witness:"+kfHF10Panic), "batch:witness-hf10-panic")
	if panicked != nil {
		if ev.Known(kfHF10Panic) {
			ev.KnownFinding(kfHF10Panic)
			return
		}
		t.Fatalf("CalcDifficulty panicked (%v) for a parent whose time equals its grandparent's under an HF10 schedule; VerifyHeaders evaluates such children of an invalid header in its workers", panicked)
	}
}
