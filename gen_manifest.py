#!/usr/bin/env python3
"""Regenerates MANIFEST.json from checks.json + manifest_meta.json (keeps it valid at all times)."""
import json, os, subprocess
V = os.path.dirname(os.path.abspath(__file__))
checks = json.load(open(os.path.join(V, "checks.json")))
meta = json.load(open(os.path.join(V, "manifest_meta.json")))
props = [json.loads(l) for l in open(os.path.join(V, "properties.jsonl"))]
hooks_commits = meta.get("hook_commits", [])
m = {
    "version": 1,
    "setup_cmd": "./vcheck --setup",
    "hooks": {
        "guard": "verif",
        "enable": "go build tag: every check compiles /repo through the harness module's replace directive with `go test -c -tags verif`",
        "baseline_off_cmd": "cd /repo && GOFLAGS=-mod=mod GOPROXY=off go test -vet=off -count=1 -timeout 25m ./...",
        "source_commits": hooks_commits,
        "add_only": True,
    },
    "engines": [
        {"name": "vcheck", "path": "/verif/vcheck", "serves_properties": sorted(checks.keys()),
         "kind_free_text": "python driver: builds one Go test binary per property from /repo's working tree (tag verif), runs it in seeded shards, merges measured evidence, maps failures to VIOLATION/KNOWN-FINDING lines"},
        {"name": "harness", "path": "/verif/harness", "serves_properties": sorted(checks.keys()),
         "kind_free_text": "Go module (replace => /repo): pgregory.net/rapid v1.3.0 properties and state machines, native go fuzz targets, independent reference oracles under ref/"},
    ],
    "checks": [],
    "not_applicable": [],
    "notes": meta.get("notes", ""),
}
for p in props:
    pid = p["id"]
    if pid in checks and pid in meta["checks"]:
        mm = meta["checks"][pid]
        c = {
            "property_id": pid,
            "quick_cmd": "./vcheck %s quick" % pid,
            "thorough_cmd": "./vcheck %s thorough" % pid,
            "evidence_file": "/verif/evidence/%s.json" % pid,
            "replay_cmd_template": "./vcheck --replay {path}",
            "engine": "vcheck",
            "level_claimed": {"category": checks[pid].get("level", "exploration"), "text": mm["text"], "design_ref": mm.get("design_ref", "DESIGN.md section 5, " + pid)},
            "level_note": mm["note"],
            "technique": mm["technique"],
        }
        m["checks"].append(c)
    else:
        m["not_applicable"].append({"property_id": pid, "reason": meta.get("not_applicable", {}).get(pid, "check not built yet in this round; planned in DESIGN.md section 5")})
json.dump(m, open(os.path.join(V, "MANIFEST.json"), "w"), indent=1)
try:
    import jsonschema
    jsonschema.validate(m, json.load(open("/root/.vp/MANIFEST.schema.json")))
    print("MANIFEST.json valid;", len(m["checks"]), "checks,", len(m["not_applicable"]), "not_applicable")
except ImportError:
    print("MANIFEST.json written (jsonschema not importable)")
